#!/bin/bash
# usage: permitted_process.sh <tag> <name> : validate an output-visible, property-preserving change (holds.py passes on both
# trees, output digests differ, suites unchanged), store it under /verif/seeded_benign/<name>/, run ALL quick checks against it
tag=$1; name=$2
out=/tmp/out-$tag; wt=/tmp/valp-$tag
[ -f $out/patch.diff ] && [ -f $out/holds.py ] || { echo "missing deliverables in $out"; exit 2; }
git -C /repo worktree remove --force $wt >/dev/null 2>&1
git -C /repo worktree add -q --detach $wt HEAD || exit 2
cd $wt
o1=$(/venv/bin/python $out/holds.py 2>&1 | tail -3); rc1=$?
git apply $out/patch.diff || { echo "patch does not apply"; cd /; git -C /repo worktree remove --force $wt; exit 3; }
o2=$(/venv/bin/python $out/holds.py 2>&1 | tail -3); rc2=$?
tests=$(/venv/bin/python -m pytest -q -p no:cacheprovider --timeout=900 --continue-on-collection-errors 2>&1 | tail -1)
up=$(/venv/bin/python /verif/tools/upstream_tests_with_shim.py -q -p no:cacheprovider --timeout=900 --continue-on-collection-errors 2>&1 | tail -1)
cd /; git -C /repo worktree remove --force $wt; git -C /repo worktree remove --force /tmp/wt-$tag 2>/dev/null
echo "clean:   $o1"; echo "changed: $o2"; echo "pinned: $tests"; echo "upstream+shim: $up"
if echo "$o1" | grep -q OK && echo "$o2" | grep -q OK && [ "$o1" != "$o2" ] && echo "$tests" | grep -q "1466 passed, 16 errors"; then
  d=/verif/seeded_benign/$name; mkdir -p $d
  cp $out/patch.diff $out/holds.py $d/; cp $out/README.md $d/ 2>/dev/null
  python3 - "$d" "$tests" "$up" <<'PY'
import json,sys,os
d,tests,up=sys.argv[1:4]
json.dump({"kind":"output-visible change the property statement permits (must NOT alarm)","validated":{"base_commit":os.popen("git -C /repo rev-parse --short HEAD").read().strip(),
 "holds_py":"prints OK on the unchanged and on the changed tree, output digests differ","pinned_tests_with_change":tests,"upstream_suite_with_shim_with_change":up}},open(os.path.join(d,"meta.json"),"w"),indent=1)
PY
  echo "STORED $d"
  cd /verif && ./vcheck selftest mutants --benign-seeded --only $name 2>&1 | grep -v "^KNOWN" | tail -40 | cut -c1-300
else
  echo "REJECTED"
fi
