"""Developer tool: run N cases of a check and print every finding signature with counts and an example (compact)."""
import collections, json, os, sys
sys.path.insert(0, os.path.dirname(os.path.dirname(os.path.abspath(__file__))))
from bcsim import main as m
m.zygote_init()
cid, n = sys.argv[1], int(sys.argv[2])
seed = int(sys.argv[3]) if len(sys.argv) > 3 else 1
tier = sys.argv[4] if len(sys.argv) > 4 else "quick"
width = int(os.environ.get("TRIAGE_WIDTH", "260"))
chk = m.load_check(cid)
os.environ["VERIF_RUNS"] = str(n)
b = chk.run_batch(tier, seed)
groups = collections.defaultdict(list)
herr = 0
for r in b["results"]:
    if "__harness_error__" in r:
        herr += 1
        if herr <= 1: print("HARNESS", r["__harness_error__"][:600], r.get("tb", "")[-900:])
        continue
    for f in r["findings"]:
        key = chk.sig_key(f) if hasattr(chk, "sig_key") else __import__("bcsim.judge").judge.sig_key(f)
        groups[key].append((r["idx"], f))
print("runs", len(b["results"]), "harness errors", herr, "wall", round(b["wall"], 1), "signatures", len(groups))
for key, insts in sorted(groups.items(), key=lambda kv: -len(kv[1]))[: int(os.environ.get("TRIAGE_MAX", "25"))]:
    idx, f = insts[0]
    print(len(insts), str(key)[:width], "run", idx)
    d = f.get("detail") or f.get("world") or ""
    if d: print("      ", str(d)[:width])
