#!/usr/bin/env python3
"""Prints the DESIGN.md 9.6 reach table from the evidence files of the last quick runs."""
import json
rows = []
for cid in ["C10", "C08", "C17", "C11", "C12"]:
    d = json.load(open(f"/verif/evidence/{cid}.json"))
    c = d["coverage"]
    ff = c.get("faults_fired", {})
    top = ", ".join(f"{k.split('(')[0].strip()} {v}" for k, v in list(ff.items())[:9] if isinstance(v, int))
    extra = ""
    if cid == "C10":
        rp = c["reach_probes"]
        extra = f"; I1 answers compared {c['answers_compared_I1']}, I5 twin answers {rp.get('by_value_twin_answers_compared_I5')}, end states {c['end_states_compared_I3']}"
    rows.append(f"| {cid} | {c['evaluations']} | {d['wall_s']:.0f} s | {top}{extra} |")
print("| check | runs | wall | faults / schedules that fired |\n|-------|------|------|-------------------|")
print("\n".join(rows))
