#!/usr/bin/env python3
"""usage: seed_meta.py <name> <round> <needs_to_manifest> <detected_by>"""
import json, sys
name, rnd, needs, det = sys.argv[1:5]
p = f"/verif/seeded/{name}/meta.json"
m = json.load(open(p))
m["needs_to_manifest"] = needs
m["detected_by"] = det
m["round"] = int(rnd)
json.dump(m, open(p, "w"), indent=1)
