#!/bin/bash
# usage: seed_process.sh <tag> <PROP> <name> : validate, store, drop the sub-agent's worktree, run the quick check against it
tag=$1; prop=$2; name=$3
cd /verif
tools/seed_validate.sh $tag $prop $name 2>&1 | tail -2
git -C /repo worktree remove --force /tmp/wt-$tag 2>/dev/null
[ -d seeded/$name ] && ./vcheck selftest mutants --seeded --only $name 2>&1 | grep -v "^       VIOLATION" | tail -12
