#!/usr/bin/env python3
import json, os, subprocess, sys
tag, prop = sys.argv[1], sys.argv[2]
theme = " ".join(sys.argv[3:])
here = os.path.dirname(os.path.abspath(__file__))
wt = f"/tmp/wt-{tag}"
subprocess.run(["git", "-C", "/repo", "worktree", "remove", "--force", wt], capture_output=True)
subprocess.run(["git", "-C", "/repo", "worktree", "add", "-q", "--detach", wt, "HEAD"], check=True)
for line in open(os.path.join(here, "..", "properties.jsonl")):
    d = json.loads(line)
    if d["id"] == prop:
        ptxt = json.dumps(d, indent=1)
t = open(os.path.join(here, "permitted_prompt_template.txt")).read()
os.makedirs("/tmp/prompts", exist_ok=True)
open(f"/tmp/prompts/{tag}.txt", "w").write(t.replace("__WT__", wt).replace("__TAG__", tag).replace("__PROP__", ptxt).replace("__THEME__", theme))
print(f"/tmp/prompts/{tag}.txt")
