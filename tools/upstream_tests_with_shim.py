import sys
sys.path.insert(0,'/verif'); sys.path.insert(0,'/repo')
from bcsim import compat
compat.install()
import pytest
sys.exit(pytest.main(sys.argv[1:]))
