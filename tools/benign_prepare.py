#!/usr/bin/env python3
"""usage: benign_prepare.py <tag> <PROP> <theme...> -- like seed_prepare.py, for behaviour-preserving refactors"""
import json, os, subprocess, sys
tag, prop = sys.argv[1], sys.argv[2]
theme = " ".join(sys.argv[3:])
here = os.path.dirname(os.path.abspath(__file__))
wt = f"/tmp/wt-{tag}"
subprocess.run(["git", "-C", "/repo", "worktree", "remove", "--force", wt], capture_output=True)
subprocess.run(["git", "-C", "/repo", "worktree", "add", "-q", "--detach", wt, "HEAD"], check=True)
ptxt = None
for line in open(os.path.join(here, "..", "properties.jsonl")):
    d = json.loads(line)
    if d["id"] == prop:
        ptxt = json.dumps(d, indent=1)
t = open(os.path.join(here, "benign_prompt_template.txt")).read()
out = t.replace("__WT__", wt).replace("__TAG__", tag).replace("__PROP__", ptxt).replace("__THEME__", theme)
os.makedirs("/tmp/prompts", exist_ok=True)
open(f"/tmp/prompts/{tag}.txt", "w").write(out)
print(f"/tmp/prompts/{tag}.txt")
