#!/bin/bash
# usage: benign_process.sh <tag> <name> : validate a behaviour-preserving refactor (equivalence digest equal on clean / changed
# tree, pinned suite unchanged), store it under /verif/seeded_benign/<name>/, drop worktrees, run ALL quick checks against it
tag=$1; name=$2
out=/tmp/out-$tag; wt=/tmp/valb-$tag
[ -f $out/patch.diff ] && [ -f $out/equivalence.py ] || { echo "missing deliverables in $out"; exit 2; }
git -C /repo worktree remove --force $wt >/dev/null 2>&1
git -C /repo worktree add -q --detach $wt HEAD || exit 2
cd $wt
d1=$(/venv/bin/python $out/equivalence.py 2>/dev/null | tail -1)
git apply $out/patch.diff || { echo "patch does not apply"; cd /; git -C /repo worktree remove --force $wt; exit 3; }
d2=$(/venv/bin/python $out/equivalence.py 2>/dev/null | tail -1)
tests=$(/venv/bin/python -m pytest -q -p no:cacheprovider --timeout=900 --continue-on-collection-errors 2>&1 | tail -1)
up=$(/venv/bin/python /verif/tools/upstream_tests_with_shim.py -q -p no:cacheprovider --timeout=900 --continue-on-collection-errors 2>&1 | tail -1)
cd /; git -C /repo worktree remove --force $wt; git -C /repo worktree remove --force /tmp/wt-$tag 2>/dev/null
echo "digest clean=$d1"; echo "digest changed=$d2"; echo "pinned: $tests"; echo "upstream+shim: $up"
if [ -n "$d1" ] && [ "$d1" == "$d2" ] && echo "$tests" | grep -q "1466 passed, 16 errors" && echo "$up" | grep -q "3 failed, 2117 passed"; then
  d=/verif/seeded_benign/$name; mkdir -p $d
  cp $out/patch.diff $out/equivalence.py $d/; cp $out/README.md $d/ 2>/dev/null
  python3 - "$d" "$d1" "$tests" "$up" <<'PY'
import json,sys,os
d,dig,tests,up=sys.argv[1:5]
json.dump({"kind":"behaviour-preserving refactor (must NOT alarm)","validated":{"base_commit":os.popen("git -C /repo rev-parse --short HEAD").read().strip(),
 "equivalence_digest_clean_and_changed":dig,"pinned_tests_with_change":tests,"upstream_suite_with_shim_with_change":up}},open(os.path.join(d,"meta.json"),"w"),indent=1)
PY
  echo "STORED $d"
  cd /verif && ./vcheck selftest mutants --benign-seeded --only $name 2>&1 | grep -v "^KNOWN" | tail -30
else
  echo "REJECTED (not equivalent or suite changed)"
fi
