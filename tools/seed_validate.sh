#!/bin/bash
# usage: seed_validate.sh <tag> <PROP> <name>   -- validates /tmp/out-<tag>/{patch.diff,demo.py} in a fresh scratch worktree
# (outside /repo and /verif), then stores it under /verif/seeded/<name>/ ; the worktree is removed afterwards.
tag=$1; prop=$2; name=$3
out=/tmp/out-$tag; wt=/tmp/val-$tag
set -u
[ -f $out/patch.diff ] && [ -f $out/demo.py ] || { echo "missing deliverables in $out"; exit 2; }
git -C /repo worktree remove --force $wt >/dev/null 2>&1
git -C /repo worktree add -q --detach $wt HEAD || exit 2
cd $wt
/venv/bin/python $out/demo.py >/tmp/val-$tag.clean.log 2>&1; rc_clean=$?
git apply $out/patch.diff || { echo "patch does not apply to HEAD"; cd /; git -C /repo worktree remove --force $wt; exit 3; }
/venv/bin/python $out/demo.py >/tmp/val-$tag.mut.log 2>&1; rc_mut=$?
tests=$(/venv/bin/python -m pytest -q -p no:cacheprovider --timeout=900 --continue-on-collection-errors 2>&1 | tail -1)
echo "demo clean rc=$rc_clean  demo mutated rc=$rc_mut  tests: $tests"
ok=0
if [ $rc_clean -eq 0 ] && [ $rc_mut -ne 0 ] && echo "$tests" | grep -q "1466 passed, 16 errors"; then ok=1; fi
cd /
git -C /repo worktree remove --force $wt
if [ $ok -eq 1 ]; then
  d=/verif/seeded/$name; mkdir -p $d
  cp $out/patch.diff $d/patch.diff; cp $out/demo.py $d/demo.py; cp $out/README.md $d/README.md 2>/dev/null
  python3 - "$d" "$prop" "$rc_clean" "$rc_mut" "$tests" <<'PY'
import json,sys,os
d,prop,rc_clean,rc_mut,tests=sys.argv[1:6]
readme=open(os.path.join(d,"README.md")).read() if os.path.exists(os.path.join(d,"README.md")) else ""
meta={"property":prop,"needs_to_manifest":"see README.md (written by the independent sub-agent)","validated":{"base_commit":os.popen("git -C /repo rev-parse --short HEAD").read().strip(),
 "demo_on_clean_tree_rc":int(rc_clean),"demo_on_changed_tree_rc":int(rc_mut),"pinned_tests_with_change":tests,
 "commands":["git worktree add --detach /tmp/val-<tag> HEAD","python demo.py (clean)","git apply patch.diff","python demo.py (changed)","pytest -q -p no:cacheprovider --timeout=900 --continue-on-collection-errors"]},
 "detected_by":None}
json.dump(meta,open(os.path.join(d,"meta.json"),"w"),indent=1)
PY
  echo "STORED $d"
else
  echo "REJECTED (see /tmp/val-$tag.*.log)"; tail -5 /tmp/val-$tag.clean.log; tail -5 /tmp/val-$tag.mut.log
fi
