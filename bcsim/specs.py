"""Seeded generators of *pure-data* specs (JSON-able dicts) for BioCantor objects.

Nothing here imports or calls the library: a spec is a function of the ``random.Random`` it is handed, independent of
the interpreter's hash seed (no set iteration anywhere).  ``bcsim.build`` turns specs into live objects.
"""
import copy

BIOTYPES_CODING = ["protein_coding"]
BIOTYPES_NONCODING = ["ncRNA", "tRNA", "rRNA", "lncRNA", "misc_RNA", "pseudogene", "snoRNA", "miRNA"]
STOPS = ["TAA", "TAG", "TGA"]
RC = {"A": "T", "C": "G", "G": "C", "T": "A", "N": "N", "a": "t", "c": "g", "g": "c", "t": "a", "n": "n"}

QUAL_KEYS_PLAIN = ["note", "db_xref", "inference", "function", "go_component", "old_locus_tag", "experiment", "kz"]
QUAL_VALS_PLAIN = ["alpha", "beta gamma", "x1", "42", "ECO:0000313", "GO:0005737", "hypothetical protein", "b", "zz top", "007", "True"]


def revcomp(s):
    return "".join(RC[c] for c in reversed(s))


def gen_seq(rng, n, with_n=False, lower=False):
    alphabet = "ACGT"
    s = [rng.choice(alphabet) for _ in range(n)]
    if with_n:
        for _ in range(max(1, n // 40)):
            s[rng.randrange(n)] = "N"
    if lower:
        for _ in range(max(1, n // 10)):
            i = rng.randrange(n)
            s[i] = s[i].lower()
    return "".join(s)


def gen_blocks(rng, lo, hi, nblocks, zero_gap_p=0.15, min_len=1, max_len=40):
    """nblocks sorted, non-overlapping blocks inside [lo, hi); gaps may be 0 bp with probability zero_gap_p."""
    span = hi - lo
    nblocks = max(1, min(nblocks, span // max(1, min_len)))
    # choose block lengths and gaps summing to <= span
    for _ in range(50):
        lens = [rng.randint(min_len, max(min_len, min(max_len, span // nblocks))) for _ in range(nblocks)]
        gaps = [0 if rng.random() < zero_gap_p else rng.randint(1, max(1, span // (2 * nblocks))) for _ in range(nblocks - 1)]
        total = sum(lens) + sum(gaps)
        if total <= span:
            break
    else:
        lens = [max(1, span // nblocks - 1)] * nblocks
        gaps = [0] * (nblocks - 1)
        total = sum(lens)
        if total > span:
            lens = [span]
            gaps = []
            nblocks = 1
            total = span
    start = lo + rng.randint(0, span - total)
    starts, ends = [], []
    pos = start
    for i in range(nblocks):
        starts.append(pos)
        pos += lens[i]
        ends.append(pos)
        if i < nblocks - 1:
            pos += gaps[i]
    return starts, ends


def blocks_len(starts, ends):
    return sum(e - s for s, e in zip(starts, ends))


def rel_to_blocks(starts, ends, strand, rel_start, rel_end):
    """Sub-blocks covering transcript-relative [rel_start, rel_end) (5'->3' numbering) of the given blocks; blocks
    returned in ascending genomic order."""
    total = blocks_len(starts, ends)
    if strand == "MINUS":
        rel_start, rel_end = total - rel_end, total - rel_start
    out_s, out_e = [], []
    pos = 0
    for s, e in zip(starts, ends):
        blen = e - s
        a = max(rel_start, pos)
        b = min(rel_end, pos + blen)
        if a < b:
            out_s.append(s + (a - pos))
            out_e.append(s + (b - pos))
        pos += blen
    return out_s, out_e


def frames_for(starts, ends, strand, f0=0):
    """Reading-frame vector (names, genomic order) for one uninterrupted ORF whose first (5') block has frame f0."""
    names = ["ZERO", "ONE", "TWO"]
    lens = [e - s for s, e in zip(starts, ends)]
    if strand == "MINUS":
        lens = lens[::-1]
    frames = [f0]
    acc = -f0
    for ln in lens[:-1]:
        acc += ln
        frames.append(acc % 3)
    if strand == "MINUS":
        frames = frames[::-1]
    return [names[f] for f in frames]


EXPORT_KEYS = ["transcript_id", "transcript_name", "transcript_biotype", "protein_id", "product", "gene_id", "gene_name",
               "gene_biotype", "feature_id", "feature_name", "feature_type", "locus_tag", "feature_collection_name",
               "feature_collection_id"]


TYPED_VALS = [[3], [3, 12], [0], [2.5], [1.0, 2.5], [True], [True, False], [False], [1], [1.0], [0.0], [1, 0]]


def gen_qualifiers(rng, max_keys=3, keys=None, vals=None, p_none=0.35, collide_p=0.12, typed_p=0.0):
    """collide_p: probability that a key is one of the names the exporters also derive from attributes (a legal
    free-form qualifier whose key collides with an export key)."""
    if rng.random() < p_none:
        return None
    keys = keys or QUAL_KEYS_PLAIN
    vals = vals or QUAL_VALS_PLAIN
    q = {}
    for _ in range(rng.randint(1, max_keys)):
        k = rng.choice(EXPORT_KEYS) if rng.random() < collide_p else rng.choice(keys)
        nv = rng.randint(1, 3)
        vs = []
        for _ in range(nv):
            v = rng.choice(vals)
            if v not in vs:
                vs.append(v)
        if typed_p and rng.random() < typed_p:
            # values that are not text: the data model declares Union[int, str, bool, float] (one type per key here)
            vs = list(rng.choice(TYPED_VALS))
        q[k] = vs
    return q


def gen_transcript(rng, lo, hi, idx="0", coding_p=0.65, strand=None, seqname="chr1", max_blocks=5, frameshift_p=0.08,
                   quals=None):
    nb = rng.choice([1, 1, 2, 2, 3, 3, 4, max_blocks])
    starts, ends = gen_blocks(rng, lo, hi, nb)
    strand = strand or rng.choice(["PLUS", "MINUS"])
    total = blocks_len(starts, ends)
    spec = {
        "exon_starts": starts,
        "exon_ends": ends,
        "strand": strand,
        "cds_starts": None,
        "cds_ends": None,
        "cds_frames": None,
        "qualifiers": gen_qualifiers(rng, **(quals or {})),
        "is_primary_tx": None,
        "transcript_id": f"tx{idx}" if rng.random() < 0.85 else None,
        "transcript_symbol": f"TX{idx}" if rng.random() < 0.7 else None,
        "transcript_type": None,
        "sequence_name": seqname,
        "protein_id": None,
        "product": None,
    }
    if rng.random() < coding_p and total >= 3:
        mode = rng.random()
        if mode < 0.25:
            cs, ce = 0, total  # CDS spans whole transcript
        else:
            cs = rng.randint(0, max(0, total - 3))
            ce = rng.randint(min(total, cs + 1), total)
            if rng.random() < 0.6:  # prefer whole codons
                ce = cs + max(3, ((ce - cs) // 3) * 3)
                ce = min(ce, total)
        c_s, c_e = rel_to_blocks(starts, ends, strand, cs, ce)
        if c_s:
            f0 = rng.choice([0, 0, 0, 1, 2])
            frames = frames_for(c_s, c_e, strand, f0)
            if len(frames) > 1 and rng.random() < frameshift_p:
                i = rng.randrange(len(frames))
                frames[i] = rng.choice(["ZERO", "ONE", "TWO"])
            spec.update(cds_starts=c_s, cds_ends=c_e, cds_frames=frames)
            spec["transcript_type"] = "protein_coding"
            spec["protein_id"] = f"prot{idx}" if rng.random() < 0.7 else None
            spec["product"] = rng.choice([None, "kinase", "hypothetical protein"])
    if spec["transcript_type"] is None and rng.random() < 0.8:
        spec["transcript_type"] = rng.choice(BIOTYPES_NONCODING)
    return spec


def cassette_isoform(rng, t, suffix="c"):
    """An isoform with the same exon span and the same CDS start/end as ``t`` but another internal structure: one CDS
    block (and the exon around it) is split by a short intron.  None if no block is long enough."""
    if not t.get("cds_starts"):
        return None
    cands = [i for i, (a, b) in enumerate(zip(t["cds_starts"], t["cds_ends"])) if b - a >= 7]
    if not cands:
        return None
    i = rng.choice(cands)
    a, b = t["cds_starts"][i], t["cds_ends"][i]
    gap = rng.choice([1, 2, 3, 4])
    p = rng.randint(a + 2, b - gap - 2) if b - gap - 2 >= a + 2 else None
    if p is None:
        return None
    n = copy.deepcopy(t)
    n["cds_starts"] = t["cds_starts"][:i] + [a, p + gap] + t["cds_starts"][i + 1:]
    n["cds_ends"] = t["cds_ends"][:i] + [p, b] + t["cds_ends"][i + 1:]
    for j, (ea, eb) in enumerate(zip(t["exon_starts"], t["exon_ends"])):
        if ea <= a and b <= eb:
            n["exon_starts"] = t["exon_starts"][:j] + [ea, p + gap] + t["exon_starts"][j + 1:]
            n["exon_ends"] = t["exon_ends"][:j] + [p, eb] + t["exon_ends"][j + 1:]
            break
    else:
        return None
    first = 0 if t["strand"] == "PLUS" else -1
    f0 = {"ZERO": 0, "ONE": 1, "TWO": 2}[t["cds_frames"][first]]
    n["cds_frames"] = frames_for(n["cds_starts"], n["cds_ends"], t["strand"], f0)
    for k in ("transcript_id", "transcript_symbol", "protein_id"):
        if n.get(k):
            n[k] = n[k] + suffix
    return n


def gen_gene(rng, lo, hi, idx="0", seqname="chr1", max_tx=3, same_strand=True, coding_p=0.65, quals=None, **txkw):
    ntx = rng.randint(1, max_tx)
    strand = rng.choice(["PLUS", "MINUS"]) if same_strand else None
    txs = []
    for i in range(ntx):
        txs.append(gen_transcript(rng, lo, hi, idx=f"{idx}_{i}", strand=strand, seqname=seqname, coding_p=coding_p,
                                  quals=quals, **txkw))
    if rng.random() < 0.2:
        txs[rng.randrange(ntx)]["is_primary_tx"] = True
    coding = any(t["cds_starts"] for t in txs)
    return {
        "transcripts": txs,
        "gene_id": f"gene{idx}" if rng.random() < 0.85 else None,
        "gene_symbol": f"GN{idx}" if rng.random() < 0.7 else None,
        "gene_type": "protein_coding" if coding else rng.choice(BIOTYPES_NONCODING),
        "locus_tag": f"LT_{idx}" if rng.random() < 0.6 else None,
        "qualifiers": gen_qualifiers(rng, **(quals or {})),
        "sequence_name": seqname,
    }


def gen_feature(rng, lo, hi, idx="0", seqname="chr1", strand=None, quals=None):
    nb = rng.choice([1, 1, 2, 3])
    starts, ends = gen_blocks(rng, lo, hi, nb)
    return {
        "interval_starts": starts,
        "interval_ends": ends,
        "strand": strand or rng.choice(["PLUS", "MINUS"]),
        "qualifiers": gen_qualifiers(rng, **(quals or {})),
        "sequence_name": seqname,
        "feature_types": rng.choice([None, ["promoter"], ["tfbs", "enhancer"], ["misc_feature"]]),
        "feature_name": f"feat{idx}" if rng.random() < 0.7 else None,
        "feature_id": f"fid{idx}" if rng.random() < 0.7 else None,
        "is_primary_feature": None,
    }


def gen_feature_collection(rng, lo, hi, idx="0", seqname="chr1", max_f=3, quals=None):
    nf = rng.randint(1, max_f)
    feats = [gen_feature(rng, lo, hi, idx=f"{idx}_{i}", seqname=seqname, quals=quals) for i in range(nf)]
    # features in one collection must have distinct guids -> distinct names
    return {
        "feature_intervals": feats,
        "feature_collection_name": f"fc{idx}" if rng.random() < 0.7 else None,
        "feature_collection_id": f"fcid{idx}" if rng.random() < 0.7 else None,
        "feature_collection_type": rng.choice([None, "regulatory"]),
        "locus_tag": f"FLT_{idx}" if rng.random() < 0.4 else None,
        "qualifiers": gen_qualifiers(rng, **(quals or {})),
        "sequence_name": seqname,
    }


def gen_variant(rng, lo, hi, idx="0"):
    kind = rng.choice(["SNV", "insertion", "deletion", "deletion_unpadded", "mnv"])
    start = rng.randint(lo, hi - 1)
    if kind == "SNV":
        end, alt = start + 1, rng.choice("ACGT")
    elif kind == "insertion":
        end, alt = start + 1, "".join(rng.choice("ACGT") for _ in range(rng.randint(2, 4)))
    elif kind == "deletion":
        end, alt = min(hi, start + rng.randint(2, 5)), rng.choice("ACGT")
    elif kind == "deletion_unpadded":
        end, alt = min(hi, start + rng.randint(1, 4)), ""
    else:
        ln = rng.randint(2, 3)
        end, alt = min(hi, start + ln), "".join(rng.choice("ACGT") for _ in range(ln))
    if end <= start:
        end = start + 1
    return {
        "start": start,
        "end": end,
        "sequence": alt,
        "variant_type": kind.split("_")[0],
        "phase_block": rng.choice([None, 1, 0, 0, 7]),
        "variant_name": f"var{idx}" if rng.random() < 0.6 else None,
        "variant_id": f"vid{idx}" if rng.random() < 0.6 else None,
        "qualifiers": gen_qualifiers(rng, p_none=0.7),
    }


def gen_variant_collection(rng, lo, hi, idx="0", seqname="chr1", max_v=3):
    nv = rng.randint(1, max_v)
    # non-overlapping: carve [lo,hi) into nv slots
    span = hi - lo
    slot = max(6, span // nv)
    vs = []
    for i in range(nv):
        a = lo + i * slot
        b = min(hi, a + slot - 1)
        if b - a < 2:
            break
        vs.append(gen_variant(rng, a, b, idx=f"{idx}_{i}"))
    return {
        "variant_intervals": vs,
        "variant_collection_name": f"vc{idx}" if rng.random() < 0.7 else None,
        "variant_collection_id": f"vcid{idx}" if rng.random() < 0.7 else None,
        "qualifiers": gen_qualifiers(rng, p_none=0.7),
        "sequence_name": seqname,
    }


def gen_parent(rng, genome, modes=("none", "chrom", "chrom_noseq", "chunk"), must_cover=None):
    """Parent description. ``must_cover``=(lo,hi): a chunk window is drawn to contain, cut or miss that span."""
    mode = rng.choice(list(modes))
    p = {"mode": mode, "genome": genome}
    if mode == "chunk":
        L = len(genome["seq"])
        r = rng.random()
        if must_cover and r < 0.4:
            lo, hi = must_cover
            a = rng.randint(0, lo)
            b = rng.randint(hi, L)
        elif must_cover and r < 0.8 and must_cover[1] - must_cover[0] >= 4:
            # a window that cuts the annotated span at one or both ends
            lo, hi = must_cover
            mid = (lo + hi) // 2
            a = rng.randint(lo + 1, mid) if rng.random() < 0.7 else rng.randint(0, lo)
            b = rng.randint(mid + 1, hi - 1) if rng.random() < 0.7 else rng.randint(hi, L)
            if b <= a:
                a, b = lo, hi
        else:
            a = rng.randint(0, max(0, L - 2))
            b = rng.randint(a + 1, L)
        p["chunk"] = [a, b]
    return p


def plant_orf(genome_seq, tx, rng, p_start=0.8, p_stop=0.8, start_codons=("ATG",)):
    """Edit the genome string so that the transcript's CDS starts with a start codon / ends with a stop (per strand).
    Only whole-codon placement inside single blocks is attempted; returns the new sequence."""
    if not tx.get("cds_starts"):
        return genome_seq
    s = list(genome_seq)
    cs, ce, strand = tx["cds_starts"], tx["cds_ends"], tx["strand"]
    f0_name = tx["cds_frames"][0 if strand == "PLUS" else -1]
    f0 = {"ZERO": 0, "ONE": 1, "TWO": 2}[f0_name]
    # positions of the CDS 5'->3'
    pos = []
    for a, b in zip(cs, ce):
        pos.extend(range(a, b))
    if strand == "MINUS":
        pos = pos[::-1]
    pos = pos[f0:]
    ncod = len(pos) // 3
    if ncod < 1:
        return genome_seq

    def put(codon_idx, codon):
        for j, ch in enumerate(codon):
            p = pos[codon_idx * 3 + j]
            s[p] = ch if strand == "PLUS" else RC[ch]

    # scrub internal stops most of the time so that has_in_frame_stop is the exception
    if rng.random() < 0.8:
        for ci in range(ncod):
            cod = "".join(s[p] if strand == "PLUS" else RC[s[p]] for p in pos[ci * 3:ci * 3 + 3]).upper()
            if cod in STOPS:
                put(ci, rng.choice(["GCA", "CTG", "AAA", "GGT"]))
    if rng.random() < p_start:
        put(0, rng.choice(list(start_codons)))
    if ncod >= 2 and rng.random() < p_stop:
        put(ncod - 1, rng.choice(STOPS))
    return "".join(s)


def gen_collection(rng, L=None, n_genes=None, n_fcs=None, n_vcs=0, seqname="chr1", parent_modes=("none", "chrom", "chrom_noseq", "chunk"),
                   quals=None, gene_kw=None, with_n=False, nonoverlapping=False, plant=True):
    L = L or rng.randint(60, 300)
    n_genes = rng.randint(1, 3) if n_genes is None else n_genes
    n_fcs = rng.choice([0, 0, 1, 2]) if n_fcs is None else n_fcs
    seq = gen_seq(rng, L, with_n=with_n)
    genes, fcs, vcs = [], [], []
    gene_kw = gene_kw or {}
    nslots = max(1, n_genes + n_fcs)
    for g in range(n_genes):
        if nonoverlapping:
            lo = (L * g) // nslots
            hi = (L * (g + 1)) // nslots - 1
        else:
            lo = rng.randint(0, max(0, L - 12))
            hi = rng.randint(min(L, lo + 10), L)
        if hi - lo < 6:
            lo, hi = 0, L
        gene = gen_gene(rng, lo, hi, idx=str(g), seqname=seqname, quals=quals, **gene_kw)
        genes.append(gene)
        if plant:
            for tx in gene["transcripts"]:
                seq = plant_orf(seq, tx, rng)
    for f in range(n_fcs):
        if nonoverlapping:
            lo = (L * (n_genes + f)) // nslots
            hi = (L * (n_genes + f + 1)) // nslots - 1
        else:
            lo = rng.randint(0, max(0, L - 8))
            hi = rng.randint(min(L, lo + 6), L)
        if hi - lo < 4:
            lo, hi = 0, L
        fcs.append(gen_feature_collection(rng, lo, hi, idx=str(f), seqname=seqname, quals=quals))
    for v in range(n_vcs):
        vcs.append(gen_variant_collection(rng, 0, L, idx=str(v), seqname=seqname))
    genome = {"id": seqname, "seq": seq, "alphabet": "NT_EXTENDED_GAPPED"}
    lo_all = min([min(t["exon_starts"][0] for t in g["transcripts"]) for g in genes] +
                 [min(f["interval_starts"][0] for f in c["feature_intervals"]) for c in fcs] + [L])
    hi_all = max([max(t["exon_ends"][-1] for t in g["transcripts"]) for g in genes] +
                 [max(f["interval_ends"][-1] for f in c["feature_intervals"]) for c in fcs] + [0])
    parent = gen_parent(rng, genome, parent_modes, must_cover=(lo_all, hi_all) if hi_all > lo_all else None)
    return {
        "genes": genes,
        "feature_collections": fcs,
        "variant_collections": vcs,
        "name": rng.choice([None, "coll"]),
        "id": rng.choice([None, "cid"]),
        "sequence_name": seqname,
        "qualifiers": gen_qualifiers(rng, p_none=0.7),
        "start": None,
        "end": None,
        "completely_within": None,
        "parent": parent,
    }


def with_parent(spec, parent):
    s = copy.deepcopy(spec)
    s["parent"] = parent
    return s


# --------------------------------------------------------------------------------------------------------------
# low-level kinds: parent hierarchies, locations, sequences (C10)


def gen_location(rng, L, parent=None, allow_empty=True, allow_overlap=True):
    r = rng.random()
    strand = rng.choice(["PLUS", "PLUS", "MINUS", "MINUS", "UNSTRANDED"])
    if r < 0.4:
        a = rng.randint(0, L - 1)
        b = rng.randint(a, L) if rng.random() < 0.9 else a
        loc = {"type": "single", "start": a, "end": b, "strand": strand}
    elif r < 0.95 or not allow_empty:
        nb = rng.randint(2, 5)
        starts, ends = gen_blocks(rng, 0, L, nb, zero_gap_p=0.2, max_len=max(2, L // 3))
        if allow_overlap and rng.random() < 0.28 and len(starts) > 1:
            i = rng.randrange(1, len(starts))
            starts[i] = max(starts[i - 1], ends[i - 1] - rng.randint(1, 3))
        if allow_overlap and rng.random() < 0.12:
            # nested blocks / blocks sharing a start or an end: the last block in sorted order is then not the one
            # that reaches furthest (span arithmetic, reverse(), merge_overlapping() depend on that)
            i = rng.randrange(len(starts))
            kind = rng.choice(["nested", "same_start", "same_end"])
            if ends[i] - starts[i] >= 2:
                if kind == "nested":
                    a = rng.randint(starts[i], ends[i] - 1)
                    nb_ = (a, rng.randint(a + 1, ends[i]))
                elif kind == "same_start":
                    nb_ = (starts[i], rng.randint(starts[i] + 1, ends[i] - 1))
                else:
                    nb_ = (rng.randint(starts[i] + 1, ends[i] - 1), ends[i])
                starts.append(nb_[0])
                ends.append(nb_[1])
        if rng.random() < 0.1:
            i = rng.randrange(len(starts))
            ends[i] = starts[i]  # empty block
        if rng.random() < 0.3:
            z = list(zip(starts, ends))
            rng.shuffle(z)
            starts, ends = [a for a, _ in z], [b for _, b in z]
        loc = {"type": "compound", "starts": starts, "ends": ends, "strand": strand}
    else:
        return {"type": "empty"}
    if parent is not None:
        loc["parent"] = parent
    return loc


def gen_parent_hierarchy(rng, depth=None, leaf_len=None, seqless=False):
    """A chain of coordinate systems: each level is a Parent with (optionally) sequence, placed on its own parent
    by a location.  Returned innermost-first description usable as the ``parent`` of a location of length
    <= leaf_len."""
    depth = depth or rng.choice([1, 1, 2, 2, 3, 4])
    # build from the top (root chromosome) down
    top_len = rng.randint(60, 200)
    top_seq = gen_seq(rng, top_len, with_n=rng.random() < 0.1, lower=rng.random() < 0.1)
    levels = []
    cur_len, cur_seq = top_len, top_seq
    node = {
        "id": "root",
        "sequence_type": rng.choice(["chromosome", "chromosome", "contig", None]),
        "sequence": {"data": top_seq, "alphabet": "NT_EXTENDED_GAPPED", "id": "root", "type": None} if (rng.random() < 0.8 and seqless is not True) else None,
        "location": None,
        "parent": None,
    }
    if node["sequence"] is not None:
        node["sequence"]["type"] = node["sequence_type"]
    levels.append(node)
    types_below = ["sequence_chunk", "region", "window", "sub"]
    for d in range(1, depth):
        # place the next level on the current one by a single or compound location
        if rng.random() < 0.6 or cur_len < 12:
            a = rng.randint(0, max(0, cur_len - 6))
            b = rng.randint(min(cur_len, a + 5), cur_len)
            strand = rng.choice(["PLUS", "PLUS", "MINUS"])
            loc = {"type": "single", "start": a, "end": b, "strand": strand}
            sub = cur_seq[a:b]
        else:
            starts, ends = gen_blocks(rng, 0, cur_len, rng.randint(2, 3), zero_gap_p=0.1, min_len=3, max_len=max(4, cur_len // 3))
            strand = rng.choice(["PLUS", "MINUS"])
            loc = {"type": "compound", "starts": starts, "ends": ends, "strand": strand}
            sub = "".join(cur_seq[s:e] for s, e in zip(starts, ends))
        if strand == "MINUS":
            sub = revcomp(sub)
        parent_desc = dict(levels[-1])
        stype = types_below[(d - 1) % len(types_below)]
        node = {
            "id": f"lvl{d}",
            "sequence_type": stype,
            # seqless: a coordinate system known only by id/type, placed on its parent by a location (no Sequence object)
            # ("mixed": each level decides for itself - e.g. a sequence-bearing fragment on a chunk known only by name;
            # not used by the plan generator: in such hierarchies the known finding F3 shows through every operation
            # that builds a Parent, see DESIGN.md 9.5, seeded r8 c10-sequence-hash-parent-id-only)
            "sequence": None if (seqless is True or (seqless == "mixed" and rng.random() < 0.5))
            else {"data": sub, "alphabet": "NT_EXTENDED_GAPPED", "id": f"lvl{d}", "type": stype},
            "location_on_parent": loc,
            "parent_desc": parent_desc,
        }
        levels.append(node)
        cur_len, cur_seq = len(sub), sub
    return {"levels": levels, "leaf_len": cur_len}
