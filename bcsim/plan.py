"""Seeded plan generator for the history simulator (C10).

A plan is explicit data: object recipes + an ordered list of steps (the schedule).  It is a pure function of the
``random.Random`` handed in: no library call, no set iteration, no clock.  Replay never goes through this module.
"""
import copy
import json

from bcsim import specs
from bcsim.ops import REGISTRY, BY_NAME

FLOOD_SIZES = [1, 50, 400, 999, 1000, 1001, 1100, 1500]
STRANDS = ["PLUS", "MINUS", "UNSTRANDED"]
TABLES = ["DEFAULT", "STANDARD", "PROKARYOTE"]
SEQTYPES = ["chromosome", "sequence_chunk", "contig", "region", "nonexistent"]


# operations whose answer is an iterator (probed against the library; an operation listed here that does not answer
# with an iterator is simply evaluated as an ordinary call)
ITER_OPS = {
    "cds": {"blocks", "relative_blocks", "scan_chromosome_codon_locations", "scan_chunk_relative_codon_locations", "scan_codons",
            "scan_codons(trunc)", "scan_codon_locations", "to_gff", "to_gff(parent,pq)"},
    "transcript": {"blocks", "cds_blocks", "relative_blocks", "to_gff", "to_gff(parent,pq)"},
    "feature": {"blocks", "relative_blocks", "to_gff", "to_gff(parent,pq)"},
    "variant": {"blocks"},
    "gene": {"iter_children", "to_gff", "to_gff(args)"},
    "feature_collection": {"iter_children", "to_gff", "to_gff(args)"},
    "variant_collection": {"iter_children"},
    "collection": {"iter_children", "iter_non_variant_children", "to_gff", "to_gff(args)", "iter"},
    "location": {"scan_blocks", "scan_windows"},
    "sequence": {"iter"},
}


def E(t, n):
    return {"$": "enum", "t": t, "n": n}


def strand_arg(rng, directional=False):
    return E("Strand", rng.choice(STRANDS[:2] if directional else STRANDS + ["PLUS", "MINUS"]))


# ---------------------------------------------------------------------------------------------------------------
# object info (plan-time knowledge derived from specs only)


def _tx_info(t, parent, L):
    lo, hi = t["exon_starts"][0], t["exon_ends"][-1]
    tlen = specs.blocks_len(t["exon_starts"], t["exon_ends"])
    cdslen = specs.blocks_len(t["cds_starts"], t["cds_ends"]) if t.get("cds_starts") else 0
    return dict(kind="transcript", lo=lo, hi=hi, tlen=tlen, cdslen=cdslen, L=L, pdesc=parent,
                bounds=sorted(set(t["exon_starts"] + t["exon_ends"] + (t.get("cds_starts") or []) + (t.get("cds_ends") or []))),
                idents=[x for x in (t.get("transcript_id"), t.get("transcript_symbol"), t.get("protein_id")) if x])


def _feat_info(f, parent, L):
    lo, hi = f["interval_starts"][0], f["interval_ends"][-1]
    tlen = specs.blocks_len(f["interval_starts"], f["interval_ends"])
    return dict(kind="feature", lo=lo, hi=hi, tlen=tlen, cdslen=0, L=L, pdesc=parent,
                bounds=sorted(set(f["interval_starts"] + f["interval_ends"])),
                idents=[x for x in (f.get("feature_name"), f.get("feature_id")) if x])


def _gene_info(g, parent, L):
    kids = [_tx_info(t, parent, L) for t in g["transcripts"]]
    return dict(kind="gene", lo=min(k["lo"] for k in kids), hi=max(k["hi"] for k in kids),
                tlen=max(k["tlen"] for k in kids), cdslen=max(k["cdslen"] for k in kids), L=L, pdesc=parent,
                bounds=sorted(set(b for k in kids for b in k["bounds"])), kids=kids,
                idents=[x for x in (g.get("gene_id"), g.get("gene_symbol"), g.get("locus_tag")) if x])


def _fc_info(c, parent, L):
    kids = [_feat_info(f, parent, L) for f in c["feature_intervals"]]
    return dict(kind="feature_collection", lo=min(k["lo"] for k in kids), hi=max(k["hi"] for k in kids),
                tlen=max(k["tlen"] for k in kids), cdslen=0, L=L, pdesc=parent,
                bounds=sorted(set(b for k in kids for b in k["bounds"])), kids=kids,
                idents=[x for x in (c.get("feature_collection_id"), c.get("feature_collection_name"), c.get("locus_tag")) if x])


def _var_info(v, parent, L):
    return dict(kind="variant", lo=v["start"], hi=v["end"], tlen=v["end"] - v["start"], cdslen=0, L=L, pdesc=parent,
                bounds=[v["start"], v["end"]], idents=[])


def _vc_info(c, parent, L):
    kids = [_var_info(v, parent, L) for v in c["variant_intervals"]]
    return dict(kind="variant_collection", lo=min(k["lo"] for k in kids), hi=max(k["hi"] for k in kids), tlen=1,
                cdslen=0, L=L, pdesc=parent, bounds=sorted(set(b for k in kids for b in k["bounds"])), kids=kids,
                idents=[x for x in (c.get("variant_collection_name"), c.get("variant_collection_id")) if x])


def info_for(kind, spec):
    parent = spec.get("parent") if isinstance(spec, dict) else None
    if kind in ("collection", "gene", "transcript", "cds", "feature", "feature_collection", "variant", "variant_collection"):
        L = len(parent["genome"]["seq"]) if parent and parent.get("genome") else 400
    if kind == "collection":
        kids = ([_gene_info(g, parent, L) for g in spec.get("genes") or []]
                + [_fc_info(c, parent, L) for c in spec.get("feature_collections") or []]
                + [_vc_info(c, parent, L) for c in spec.get("variant_collections") or []])
        kids = sorted(kids, key=lambda k: k["lo"])  # stable, mirrors iter_children order
        if kids:
            lo, hi = min(k["lo"] for k in kids), max(k["hi"] for k in kids)
        else:
            lo, hi = 0, L
        if parent and parent["mode"] == "chunk":
            lo, hi = parent["chunk"]
        elif parent and parent["mode"] == "chrom":
            lo, hi = 0, L
        if spec.get("start") is not None:
            lo, hi = spec["start"], spec["end"]
        return dict(kind="collection", lo=lo, hi=hi, tlen=hi - lo, cdslen=0, L=L, pdesc=parent, kids=kids,
                    bounds=sorted(set([lo, hi] + [b for k in kids for b in k["bounds"]])),
                    idents=[i for k in kids for i in k["idents"]])
    if kind == "gene":
        return _gene_info(spec, parent, L)
    if kind == "feature_collection":
        return _fc_info(spec, parent, L)
    if kind == "variant_collection":
        return _vc_info(spec, parent, L)
    if kind == "transcript":
        return _tx_info(spec, parent, L)
    if kind == "cds":
        i = _tx_info(spec, parent, L)
        i.update(kind="cds", lo=spec["cds_starts"][0], hi=spec["cds_ends"][-1], tlen=i["cdslen"])
        return i
    if kind == "feature":
        return _feat_info(spec, parent, L)
    if kind == "variant":
        return _var_info(spec, parent, L)
    if kind == "location":
        pd = spec.get("parent")
        if spec["type"] == "empty":
            return dict(kind="location", lo=0, hi=10, tlen=0, L=50, pdesc=pd, bounds=[0, 10])
        if spec["type"] == "single":
            lo, hi, tlen, bounds = spec["start"], spec["end"], spec["end"] - spec["start"], [spec["start"], spec["end"]]
        else:
            lo, hi = min(spec["starts"]), max(spec["ends"])
            tlen = sum(e - s for s, e in zip(spec["starts"], spec["ends"]))
            bounds = sorted(set(spec["starts"] + spec["ends"]))
        L = hi + 10
        if pd and "levels" in pd:
            L = pd["leaf_len"]
        elif pd and "genome" in pd:
            L = len(pd["genome"]["seq"])
        return dict(kind="location", lo=lo, hi=hi, tlen=tlen, L=L, pdesc=pd, bounds=bounds, cdslen=0)
    if kind == "parent":
        return dict(kind="parent", lo=0, hi=spec["leaf_len"], tlen=spec["leaf_len"], L=spec["leaf_len"], pdesc=spec,
                    bounds=[0, spec["leaf_len"]], cdslen=0)
    if kind == "sequence":
        return dict(kind="sequence", lo=0, hi=spec["leaf_len"], tlen=spec["leaf_len"], L=spec["leaf_len"], pdesc=spec,
                    bounds=[0, spec["leaf_len"]], cdslen=0)
    raise ValueError(kind)


def derived_info(src, kind, opname=None, args=None):
    i = dict(src)
    i["kind"] = kind
    i.pop("kids", None)
    if src["kind"] in ("gene", "feature_collection", "variant_collection", "collection") and opname == "child" and src.get("kids"):
        k = src["kids"][args[0] % len(src["kids"])]
        return dict(k)
    if kind == "cds" and src.get("cdslen"):
        i["tlen"] = src["cdslen"]
    if kind in ("collection", "gene", "feature_collection", "variant_collection") and src.get("kids") and src["kind"] == kind:
        i["kids"] = src["kids"]
    return i


# ---------------------------------------------------------------------------------------------------------------
# argument generators


def _pos_near(rng, info, lo=None, hi=None):
    lo = info["lo"] if lo is None else lo
    hi = info["hi"] if hi is None else hi
    r = rng.random()
    if r < 0.35 and info.get("bounds"):
        return rng.choice(info["bounds"]) + rng.choice([-1, 0, 0, 1])
    if r < 0.9:
        return rng.randint(lo, max(lo, hi - 1))
    return rng.choice([lo - 1, hi, hi + 1, 0, max(0, info.get("L", hi))])


def _interval(rng, info, lo, hi):
    a = _pos_near(rng, info, lo, hi)
    b = _pos_near(rng, info, lo, hi)
    if rng.random() < 0.9 and a > b:
        a, b = b, a
    return a, b


def _loc_spec(rng, info, with_parent=True, chrom_coords=False):
    L = max(2, info.get("L", 50))
    pd = info.get("pdesc") if with_parent else None
    if pd and "mode" in pd:
        if pd["mode"] == "none":
            pd = None
        elif pd["mode"] == "chunk" and chrom_coords:
            pd = {"mode": "chrom_noseq", "genome": pd["genome"]}
    if pd and "mode" in pd and pd["mode"] == "chunk":
        L = pd["chunk"][1] - pd["chunk"][0]
    loc = specs.gen_location(rng, L, allow_empty=rng.random() < 0.1)
    if loc["type"] != "empty":
        # bias towards the object's own span so that overlaps are common
        if rng.random() < 0.6 and not (pd and "mode" in pd and pd["mode"] == "chunk"):
            lo, hi = max(0, info["lo"] - 3), min(L, info["hi"] + 3)
            if hi - lo >= 2:
                sub = specs.gen_location(rng, hi - lo, allow_empty=False)
                if sub["type"] == "single":
                    sub["start"] += lo
                    sub["end"] += lo
                else:
                    sub["starts"] = [s + lo for s in sub["starts"]]
                    sub["ends"] = [e + lo for e in sub["ends"]]
                loc = sub
        r = rng.random()
        if pd is not None and r < 0.8:
            loc["parent"] = pd
        elif r < 0.9:
            loc["parent"] = {"id_only": "chr1"}
    return loc


def _parentobj(rng, info, allow_none=False):
    pd = info.get("pdesc")
    if allow_none and rng.random() < 0.25:
        return None
    if pd and "mode" in pd:
        g = pd["genome"]
        L = len(g["seq"])
        mode = rng.choice(["chrom", "chunk", "chunk", "chrom_noseq"])
        p = {"mode": mode, "genome": g}
        if mode == "chunk":
            a = rng.randint(0, max(0, min(info["lo"], L - 2)))
            b = rng.randint(min(L, max(a + 1, info["lo"] + 1)), L)
            if rng.random() < 0.3:
                a = rng.randint(0, L - 2)
                b = rng.randint(a + 1, L)
            p["chunk"] = [a, b]
        return {"$": "parentobj", "spec": p}
    if pd and "levels" in pd:
        upto = rng.randint(0, len(pd["levels"]) - 1)
        return {"$": "parentobj", "spec": pd, "upto": upto}
    return {"$": "parentobj", "spec": {"mode": "chrom_noseq", "genome": {"id": "chr1", "seq": "", "alphabet": "NT_EXTENDED_GAPPED"}}}


def gen_args(rng, argnames, info, objname, pools):
    """Returns encoded args or None when a needed reference does not exist."""
    out = []
    for a in argnames:
        if a == "bool":
            out.append(rng.random() < 0.5)
        elif a == "cpos":
            out.append(_pos_near(rng, info))
        elif a == "kpos":
            ch = (info.get("pdesc") or {}).get("chunk")
            off = ch[0] if ch else 0
            out.append(_pos_near(rng, info) - off)
        elif a == "rpos":
            out.append(rng.choice([-1, 0, info["tlen"] - 1, info["tlen"], rng.randint(0, max(0, info["tlen"]))]))
        elif a == "cdspos":
            n = info.get("cdslen", 0) or 3
            out.append(rng.choice([-1, 0, n - 1, n, rng.randint(0, n)]))
        elif a == "cint":
            s, e = _interval(rng, info, info["lo"], info["hi"])
            out.extend([s, e, strand_arg(rng)])
        elif a == "kint":
            ch = (info.get("pdesc") or {}).get("chunk")
            off = ch[0] if ch else 0
            s, e = _interval(rng, info, info["lo"], info["hi"])
            out.extend([s - off, e - off, strand_arg(rng)])
        elif a == "rint":
            n = info["tlen"]
            s, e = sorted([rng.randint(0, max(0, n)), rng.randint(0, max(0, n))])
            if rng.random() < 0.1:
                e = n + 1
            out.extend([s, e, strand_arg(rng)])
        elif a == "cdsint":
            n = info.get("cdslen", 0) or 3
            s, e = sorted([rng.randint(0, n), rng.randint(0, n)])
            out.extend([s, e, strand_arg(rng)])
        elif a == "table":
            out.append(E("TranslationTable", rng.choice(TABLES)))
        elif a == "strand":
            out.append(strand_arg(rng))
        elif a == "frame":
            out.append(E("CDSFrame", rng.choice(["ZERO", "ONE", "TWO"])))
        elif a == "dist":
            out.append(E("DistanceType", rng.choice(["INNER", "OUTER", "STARTS", "ENDS"])))
        elif a == "seqtype":
            out.append({"$": "seqtype", "v": rng.choice(SEQTYPES[:3] if rng.random() < 0.85 else SEQTYPES)})
        elif a == "loc":
            out.append({"$": "loc", "spec": _loc_spec(rng, info)})
        elif a == "loc_chrom":
            out.append({"$": "loc", "spec": _loc_spec(rng, info, chrom_coords=True)})
        elif a == "loc_noparent":
            out.append({"$": "loc", "spec": _loc_spec(rng, info, with_parent=False)})
        elif a == "parentobj":
            out.append(_parentobj(rng, info))
        elif a == "parentobj_or_none":
            out.append(_parentobj(rng, info, allow_none=True))
        elif a == "twin":
            out.append({"$": "twin", "n": objname})
        elif a.startswith("ref:"):
            want = a[4:]
            kinds = {"variants": ("variant", "variant_collection")}.get(want, (want,))
            cands = [n for k in kinds for n in pools.get(k, [])]
            if want != "variants":
                cands = [n for n in cands if n != objname] or cands
            if not cands:
                return None
            out.append({"$": "ref", "n": rng.choice(cands)})
        elif a == "window":
            r = rng.random()
            if r < 0.15:
                s = e = None
            elif r < 0.3:
                s, e = _pos_near(rng, info), None
            elif r < 0.45:
                s, e = None, _pos_near(rng, info)
            else:
                s, e = _interval(rng, info, info["lo"], info["hi"])
            out.extend([s, e, rng.random() < 0.5])
        elif a == "smallint":
            out.append(rng.choice([0, 0, 1, 2, 3, 5]))
        elif a == "faultpos":
            # where the disk fills up, in fifths of the file: the tail (FASTA section / last record) is where writers
            # tend to do something special, so it is drawn more often
            out.append(rng.choice([0, 1, 2, 3, 4, 4, 5, 5, 5]))
        elif a == "shift":
            out.append(rng.choice([-3, -1, 0, 1, 2, 7]))
        elif a == "win":
            out.append(rng.choice([1, 2, 3, 3, 5]))
        elif a == "lpos":
            out.append(_pos_near(rng, info))
        elif a == "lrpos":
            out.append(rng.choice([-1, 0, info["tlen"] - 1, info["tlen"], rng.randint(0, max(0, info["tlen"]))]))
        elif a == "lrint":
            n = info["tlen"]
            s, e = sorted([rng.randint(0, max(0, n)), rng.randint(0, max(0, n))])
            out.extend([s, e, strand_arg(rng)])
        elif a == "childidx":
            out.append(rng.randint(0, 5))
        elif a == "guids:children":
            nk = len(info.get("kids") or []) or 3
            idx = [rng.randrange(nk) for _ in range(rng.randint(0, nk))]
            out.append({"$": "guids", "n": objname, "level": 1, "idx": idx, "bogus": rng.choice([0, 0, 1])})
        elif a == "guids:grandchildren":
            idx = [rng.randrange(6) for _ in range(rng.randint(0, 4))]
            out.append({"$": "guids", "n": objname, "level": 2, "idx": idx, "bogus": rng.choice([0, 0, 1])})
        elif a == "idents":
            ids = info.get("idents") or []
            pick = [rng.choice(ids) for _ in range(rng.randint(0, 3))] if ids else []
            if rng.random() < 0.3:
                pick.append("no_such_id")
            out.append(pick if rng.random() < 0.8 or not pick else pick[0])
        elif a == "childtype":
            out.append(rng.choice(["feature", "transcript", "variant", "FEATURE", "bogus"]))
        elif a == "qpos":
            lo, hi = info["lo"], info["hi"]
            r = rng.random()
            if r < 0.15:
                s, e = None, None
            elif r < 0.25:
                s, e = lo, hi
            else:
                s, e = _interval(rng, info, lo, hi)
                if rng.random() < 0.1:
                    s = None
                if rng.random() < 0.1:
                    e = None
            out.extend([s, e, rng.random() < 0.3, rng.random() < 0.5, rng.random() < 0.3])
        elif a in ("pquals", "pquals_sets"):
            # the dictionary of sets a gene hands to its children; some keys collide with what the child adds itself
            v = rng.choice([None, {"gene_id": ["g1"]}, {"note": ["from parent", "alpha"]}, {"locus_tag": ["LT"], "kz": ["1"]},
                            {"transcript_id": ["from_parent"], "note": ["p1"]}, {"gene_id": ["g_parent"], "product": ["pp"], "protein_id": ["pid_parent"]},
                            {"transcript_name": ["tn_parent"], "transcript_biotype": ["tb"], "feature_name": ["fn_parent"], "feature_id": ["fid_parent"], "feature_type": ["ft"]}])
            out.append({"$": "dictsets", "v": v})
        elif a == "gffparent":
            out.append(rng.choice([None, "parent-1"]))
        elif a == "score":
            out.append(rng.choice([0, 500, 1000]))
        elif a == "rgb":
            out.append({"$": "rgb", "v": [rng.randint(0, 255), 0, 7]})
        elif a == "bedname":
            out.append(rng.choice(["transcript_symbol", "feature_name", "guid", "transcript_id", "literal name"]))
        elif a == "optstr":
            out.append(rng.choice([None, "newid"]))
        elif a == "fastawidth":
            out.append(rng.choice([1, 7, 60]))
        elif a == "sslice":
            n = info["tlen"]
            s, e = sorted([rng.randint(0, max(0, n)), rng.randint(0, max(0, n))])
            out.extend([s, e])
        elif a == "sidx":
            out.append(rng.randint(0, max(0, info["tlen"] - 1)))
        else:
            raise ValueError(f"unknown arg type {a}")
    return out


# ---------------------------------------------------------------------------------------------------------------
# plan assembly

WORKFLOWS = {
    "coords": ("pos_to", "interval_to", "location", "span", "gaps", "blocks", "start", "end", "strand", "lift", "ancestor", "relative", "intron", "5p", "3p"),
    "sequence": ("sequence", "translate", "codon", "stop", "start_codon", "protein", "extract", "frames", "has_in_frame"),
    "export": ("to_dict", "to_gff", "to_bed12", "export_qualifiers", "qualifiers", "guid", "__hash__", "__eq__", "hash==", "pickle", "from_dict", "__str__", "__repr__"),
    "query": ("query_by", "children", "child", "iter", "primary", "merged", "guid_map", "is_"),
    "derive": ("intersect", "minus", "union", "optimize", "incorporate", "liftover", "reset_", "reverse", "shift", "extend", "merge", "intersection", "strip", "getitem", "append", "complement"),
    "any": ("",),
}


STATEFUL = (
    "extract_sequence", "blocks", "is_overlapping", "strand", "parent", "has_sequence", "chromosome_location",
    "chromosome_span", "chromosome_gaps_location", "chunk_relative_span", "chunk_relative_gaps_location",
    "get_spliced_sequence", "get_reference_sequence", "get_genomic_sequence", "chunk_relative_codon_locations",
    "chromosome_codon_locations", "scan_chunk_relative_codon_locations", "scan_chromosome_codon_locations",
    "translate", "translate(args)", "has_in_frame_stop", "get_transcript_sequence", "get_cds_sequence",
    "get_protein_sequence", "get_protein_sequence(args)", "hierarchical_children_guids", "interval_guids_to_collections",
    "children", "non_variant_children", "query_by_interval_guids", "alternative_genomic_sequence",
    "parent_with_alternative_sequence", "to_gff", "to_gff(args)", "to_gff(parent,pq)", "export_qualifiers",
    "export_qualifiers(parent)", "to_dict", "__hash__", "__str__", "lift_over_to_first_ancestor_of_type", "location",
    "sequence", "location_on_parent", "getitem_slice", "reverse_complement", "chunk_relative_frames", "num_codons",
    "has_valid_stop", "scan_codons", "optimize_blocks", "gaps_location", "lift_child_location_to_parent",
)


def _stateful_ops(kind):
    ops = [o for o in REGISTRY[kind] if o.name in STATEFUL]
    return ops or REGISTRY[kind]


def _derive_ops(kind):
    return [o for o in REGISTRY[kind] if o.result]


def _focused_session(pb, rng, s, roots):
    """Short, targeted history: fill state on X, derive Y from X, interrogate Y (and X again), in seed-chosen order.
    Chains up to depth 3."""
    steps = []
    x = rng.choice(roots)
    chain = [x]
    for depth in range(rng.randint(1, 3)):
        cur = chain[-1]
        kind = pb.objects[cur]["kind"]
        # optionally warm up the current object first
        for _ in range(rng.choice([0, 1, 1, 2])):
            op = _pick_op(rng, _stateful_ops(kind) if rng.random() < 0.7 else REGISTRY[kind])
            st = pb.call_step(s, cur, op, store_p=0.0)
            if st:
                steps.append(st)
        dops = _derive_ops(kind)
        if not dops:
            break
        st = None
        for _ in range(4):
            st = pb.call_step(s, cur, _pick_op(rng, dops), store_p=1.0)
            if st and "store" in st:
                break
        if not st or "store" not in st:
            break
        steps.append(st)
        chain.append(st["store"])
    # interrogate everything in the chain, newest first most of the time; memo leaks between a source and what was
    # derived from it typically show on the *same* accessor, so the warm-up questions are asked again of the derivative
    asked = [st["op"] for st in steps if "store" not in st]
    for _ in range(rng.randint(2, 6)):
        cur = chain[-1] if rng.random() < 0.6 else rng.choice(chain)
        kind = pb.objects[cur]["kind"]
        same = [BY_NAME[kind][n] for n in asked if n in BY_NAME[kind]]
        if same and rng.random() < 0.45:
            op = rng.choice(same)
        else:
            op = _pick_op(rng, _stateful_ops(kind) if rng.random() < 0.6 else REGISTRY[kind])
        st = pb.call_step(s, cur, op, store_p=0.1)
        if st:
            steps.append(st)
    return steps, chain


def _ops_for(kind, workflow):
    pats = WORKFLOWS[workflow]
    ops = [o for o in REGISTRY[kind] if any(p in o.name for p in pats)]
    return ops or REGISTRY[kind]


class PlanBuilder:
    def __init__(self, rng):
        self.rng = rng
        self.sliced = []  # roots cut by their sequence chunk
        self.orf_roots = []  # coding roots with a planted ORF (often an alternative start codon) on a parent with sequence
        self.strain_twins = []  # pairs of collections with the same sequence name, length and annotation, other bases
        self.overlap_roots = []  # stand-alone CDS whose blocks overlap
        self.order_twins = []  # pairs of roots that differ only in the order of their children
        self.objects = {}
        self.infos = {}
        self.pools = {}
        self.counter = 0
        self.collision_pairs = []

    def add_root(self, kind, spec, name=None):
        name = name or f"{kind[:3]}{self.counter}"
        self.counter += 1
        self.objects[name] = {"kind": kind, "spec": spec}
        self.infos[name] = info_for(kind, spec)
        self.pools.setdefault(kind, []).append(name)
        return name

    def add_derived(self, src, kind, op, args):
        name = f"d{self.counter}"
        self.counter += 1
        self.objects[name] = {"kind": kind, "from": src, "op": op, "args": args}
        self.infos[name] = derived_info(self.infos[src], kind, op, args)
        self.pools.setdefault(kind, []).append(name)
        return name

    def call_step(self, sess, objname, op, store_p=0.35):
        rng = self.rng
        kind = self.objects[objname]["kind"]
        args = gen_args(rng, op.args, self.infos[objname], objname, self.pools)
        if args is None:
            return None
        step = {"s": sess, "t": "call", "obj": objname, "op": op.name, "args": args}
        if op.result and rng.random() < store_p:
            rk = op.result
            if rk == "child":
                rk = {"gene": "transcript", "feature_collection": "feature", "variant_collection": "variant"}.get(kind)
                if kind == "collection":
                    kids = self.infos[objname].get("kids")
                    rk = kids[args[0] % len(kids)]["kind"] if kids else None
            if rk:
                step["store"] = self.add_derived(objname, rk, op.name, args)
        return step


def _pick_op(rng, ops):
    tot = sum(o.weight for o in ops)
    r = rng.random() * tot
    for o in ops:
        r -= o.weight
        if r <= 0:
            return o
    return ops[-1]


def _annotation_roots(pb, rng, size):
    """One generated collection on a seed-chosen parent, plus siblings: the same specs on another parent
    (near-twins) and stand-alone children built on the same parent description."""
    coll = specs.gen_collection(
        rng,
        L=rng.choice([40, 80, 150, 300][: size + 2]),
        n_genes=rng.randint(1, 1 + size),
        n_vcs=0,
        gene_kw=dict(max_tx=1 + size),
    )
    # tie twins: an isoform (feature) listed twice under another identifier, no explicit primary flag: the inferred primary
    # child is then decided by list position alone, so anything that forgets the order of the children shows
    for gene_ in coll["genes"]:
        if rng.random() < 0.2:
            tw = copy.deepcopy(rng.choice(gene_["transcripts"]))
            tw["transcript_id"] = (tw.get("transcript_id") or "tx") + "_tie"
            for t_ in gene_["transcripts"]:
                t_["is_primary_tx"] = None
            tw["is_primary_tx"] = None
            gene_["transcripts"].insert(rng.randint(0, len(gene_["transcripts"])), tw)
    for fc_ in coll["feature_collections"]:
        if rng.random() < 0.2:
            tw = copy.deepcopy(rng.choice(fc_["feature_intervals"]))
            tw["feature_id"] = (tw.get("feature_id") or "f") + "_tie"
            for f_ in fc_["feature_intervals"]:
                f_["is_primary_feature"] = None
            fc_["feature_intervals"].insert(rng.randint(0, len(fc_["feature_intervals"])), tw)
    # one text used in two roles by different objects: as a symbol (written as Name=, where a comma is escaped) and as a free
    # qualifier value (where it is not) - whatever is remembered per text rather than per role shows
    if rng.random() < 0.15 and coll["genes"]:
        text = rng.choice(["dnaA, replication initiator", "a,b", "x;y,z", "50% identity, partial"])
        g_ = rng.choice(coll["genes"])
        if rng.random() < 0.5:
            g_["gene_symbol"] = text
        else:
            rng.choice(g_["transcripts"])["transcript_symbol"] = text
        holder = rng.choice(coll["genes"] + coll["feature_collections"] + [t_ for x_ in coll["genes"] for t_ in x_["transcripts"]])
        q_ = holder.get("qualifiers") or {}
        q_.setdefault("note", [])
        if text not in q_["note"]:
            q_["note"].append(text)
        holder["qualifiers"] = q_
    g = coll["parent"]["genome"]
    L = len(g["seq"])
    # some coding transcripts get a real ORF, often with an alternative start codon: answers that depend on the
    # translation table (first residue, start-codon questions) then differ between tables
    for gene_ in coll["genes"]:
        for t_ in gene_["transcripts"]:
            if t_.get("cds_starts") and rng.random() < 0.4:
                g["seq"] = specs.plant_orf(g["seq"], t_, rng, p_start=0.9, p_stop=0.7, start_codons=("ATG", "TTG", "CTG", "GTG", "ATT", "ATA"))
                t_["_orf"] = True
    if rng.random() < 0.35 and coll["parent"]["mode"] in ("chrom", "chunk"):
        coll["variant_collections"] = [specs.gen_variant_collection(rng, 0, L, idx="0")]
        if coll["parent"]["mode"] == "chunk":
            a, b = coll["parent"]["chunk"]
            if b - a > 8:
                coll["variant_collections"] = [specs.gen_variant_collection(rng, a, b, idx="0")]
    names = [pb.add_root("collection", coll)]
    parent = coll["parent"]
    roots = []
    for gi, gene in enumerate(coll["genes"]):
        roots.append(("gene", specs.with_parent(gene, parent)))
        for t in gene["transcripts"]:
            roots.append(("transcript", specs.with_parent(t, parent)))
            if t.get("cds_starts"):
                roots.append(("cds", specs.with_parent(t, parent)))
    for fc in coll["feature_collections"]:
        roots.append(("feature_collection", specs.with_parent(fc, parent)))
        for f in fc["feature_intervals"]:
            roots.append(("feature", specs.with_parent(f, parent)))
    rng.shuffle(roots)
    for kind, spec in roots[: rng.randint(1, 3 + size)]:
        names.append(pb.add_root(kind, spec))
        if kind in ("transcript", "cds") and spec.get("_orf") and parent["mode"] in ("chrom", "chunk"):
            pb.orf_roots.append(names[-1])
    # order twins: the same gene / feature collection with its children listed in another order, as a root of its own (so
    # that its pristine twin is built in a process that never saw the first order): whatever is keyed by the SET of children
    # while the answer depends on their ORDER (inferred primary child, iteration order, ties) shows
    multi = [(k_, s_) for k_, s_ in roots if k_ in ("gene", "feature_collection") and len(s_.get("transcripts") or s_.get("feature_intervals") or []) >= 2]
    if multi and rng.random() < 0.35:
        k_, s_ = rng.choice(multi)
        tw = copy.deepcopy(s_)
        kids = tw["transcripts"] if k_ == "gene" else tw["feature_intervals"]
        kids.reverse()
        a_ = pb.add_root(k_, s_)
        b_ = pb.add_root(k_, tw)
        names += [a_, b_]
        pb.order_twins.append((a_, b_))
    # a stand-alone CDS / transcript on a chunk whose window cuts it (frame bookkeeping across the cut is stateful code)
    coding = [t for gene in coll["genes"] for t in gene["transcripts"] if t.get("cds_starts")]
    if coding and rng.random() < 0.5:
        t = rng.choice(coding)
        lo, hi = t["cds_starts"][0], t["cds_ends"][-1]
        if hi - lo >= 6:
            a = rng.randint(lo + 1, lo + (hi - lo) // 2) if rng.random() < 0.6 else max(0, lo - rng.randint(0, 3))
            b = rng.randint(lo + (hi - lo) // 2 + 1, hi - 1) if rng.random() < 0.6 else min(L, hi + rng.randint(0, 3))
            if b > a:
                cut = {"mode": "chunk", "genome": g, "chunk": [a, b]}
                names.append(pb.add_root(rng.choice(["cds", "cds", "transcript"]), specs.with_parent(t, cut)))
                pb.sliced.append(names[-1])
    # a stand-alone CDS whose blocks overlap by 1-3 bp (how a programmed -1 frameshift is annotated): the codon that spans
    # the overlap has no Location in reading order, so codon-based and sequence-based paths meet different data
    if coding and rng.random() < 0.3:
        t = copy.deepcopy(rng.choice(coding))
        cs, ce = list(t["cds_starts"]), list(t["cds_ends"])
        k = rng.randint(1, 3)
        if len(cs) >= 2:
            i = rng.randrange(len(cs) - 1)
            if ce[i] - k > cs[i] and ce[i] - k < ce[i + 1]:
                cs[i + 1] = ce[i] - k
        elif ce[0] - cs[0] >= 8:
            m = rng.randint(cs[0] + 3, ce[0] - 4)
            cs, ce = [cs[0], m], [m + k, ce[0]]
        if any(cs[j + 1] < ce[j] for j in range(len(cs) - 1)):
            f0 = {"ZERO": 0, "ONE": 1, "TWO": 2}[t["cds_frames"][0 if t["strand"] == "PLUS" else -1]]
            t["cds_starts"], t["cds_ends"] = cs, ce
            t["cds_frames"] = specs.frames_for(cs, ce, t["strand"], f0)
            names.append(pb.add_root("cds", specs.with_parent(t, parent)))
            pb.sliced.append(names[-1])  # preferred by covering walks, like roots cut by their chunk
            pb.overlap_roots.append(names[-1])
    # a stand-alone TRANSCRIPT whose CDS does not tile its exons: one CDS block is split in two pieces that overlap by 1-3 bp
    # (-1 frameshift) or leave 1-2 bp of the exon out (+1 / +2 frameshift): CDS coordinates and transcript coordinates stop
    # being a constant offset apart
    if coding and rng.random() < 0.25:
        t = copy.deepcopy(rng.choice(coding))
        cs, ce = list(t["cds_starts"]), list(t["cds_ends"])
        big = [i for i in range(len(cs)) if ce[i] - cs[i] >= 9]
        if big:
            i = rng.choice(big)
            m = rng.randint(cs[i] + 3, ce[i] - 5)
            k = rng.randint(1, 3)
            if rng.random() < 0.5:
                pieces = [(cs[i], m + k), (m, ce[i])]   # overlap
            else:
                pieces = [(cs[i], m), (m + min(k, 2), ce[i])]  # gap inside the exon
            cs[i:i + 1] = [x[0] for x in pieces]
            ce[i:i + 1] = [x[1] for x in pieces]
            f0 = {"ZERO": 0, "ONE": 1, "TWO": 2}[t["cds_frames"][0 if t["strand"] == "PLUS" else -1]]
            t["cds_starts"], t["cds_ends"] = cs, ce
            t["cds_frames"] = specs.frames_for(cs, ce, t["strand"], f0)
            names.append(pb.add_root("transcript", specs.with_parent(t, parent)))
            pb.sliced.append(names[-1])
    # near-twin: same collection on another parent description
    if rng.random() < 0.5:
        p2 = specs.gen_parent(rng, g, must_cover=None)
        twin = copy.deepcopy(coll)
        twin["parent"] = p2
        if p2["mode"] in ("none", "chrom_noseq"):
            twin["variant_collections"] = []
        elif twin["variant_collections"] and p2["mode"] == "chunk":
            twin["variant_collections"] = []
        names.append(pb.add_root("collection", twin))
        if roots and rng.random() < 0.7:
            kind, spec = rng.choice(roots)
            names.append(pb.add_root(kind, specs.with_parent(spec, p2)))
    # near-twin: same collection, same sequence name and length, other bases
    if rng.random() < 0.25 and parent["mode"] in ("chrom", "chunk"):
        twin = copy.deepcopy(coll)
        tg = twin["parent"]["genome"]
        tg["seq"] = tg["seq"].translate(str.maketrans("ACGT", "CATG"))
        names.append(pb.add_root("collection", twin))
        pb.strain_twins.append((names[0], names[-1]))
    # an annotation-free collection on the same parent (a contig nobody has annotated yet): same coordinate system and
    # bounds, no children
    if rng.random() < 0.18 and parent["mode"] != "none":
        empty = copy.deepcopy(coll)
        empty.update(genes=[], feature_collections=[], variant_collections=[])
        names.append(pb.add_root("collection", empty))
    # variants on the same genome
    if rng.random() < 0.65 and parent["mode"] != "none":
        lo, hi = (parent["chunk"] if parent["mode"] == "chunk" else (0, L))
        hi0, pin_first = hi, False
        r_ = rng.random()
        if r_ < 0.25 and hi - lo > 24:
            # all variants in the downstream part of the sequence: whatever is annotated upstream of them is untouched
            lo = rng.randint(lo + (hi - lo) // 2, hi - 9)
        elif coll["genes"] and r_ < 0.7:
            # variants inside a gene's span (so that they hit some isoforms and miss others), not anywhere on the sequence
            g_ = rng.choice(coll["genes"])
            glo = max(lo, min(t["exon_starts"][0] for t in g_["transcripts"]))
            ghi = min(hi, max(t["exon_ends"][-1] for t in g_["transcripts"]))
            if ghi - glo > 8:
                lo, hi = glo, ghi
                ends_ = sorted({t["exon_ends"][-1] for t in g_["transcripts"]})
                if len(ends_) > 1 and rng.random() < 0.6 and hi0 - ends_[0] > 8:
                    # ... the first one exactly where the isoform that ends first stops (isoform ends lie within a few
                    # bases of each other): it then misses that isoform and hits the others
                    lo, hi, pin_first = ends_[0], hi0, True
        if hi - lo > 8:
            vc = specs.gen_variant_collection(rng, lo, hi, idx="x")
            if pin_first and vc["variant_intervals"]:
                vc["variant_intervals"][0].update(start=lo, end=lo + 1, sequence=rng.choice("ACGT"), variant_type="SNV")
            names.append(pb.add_root("variant_collection", specs.with_parent(vc, parent)))
            names.append(pb.add_root("variant", specs.with_parent(vc["variant_intervals"][0], parent)))
    # a location on the same parent
    info = pb.infos[names[0]]
    for _ in range(rng.randint(0, 2)):
        names.append(pb.add_root("location", _loc_spec(rng, info)))
    return names


def _lowlevel_roots(pb, rng, size):
    names = []
    hs = [specs.gen_parent_hierarchy(rng, seqless=rng.random() < 0.3, depth=rng.choice([3, 3, 4]) if rng.random() < 0.3 else None) for _ in range(rng.randint(1, 2))]
    for h in hs:
        names.append(pb.add_root("parent", h))
        if len(h["levels"]) > 1 and rng.random() < 0.7:
            names.append(pb.add_root("sequence", h))
        for _ in range(rng.randint(1, 2 + size)):
            loc = specs.gen_location(rng, max(2, h["leaf_len"]), allow_empty=rng.random() < 0.15)
            if loc["type"] != "empty":
                loc["parent"] = h
            names.append(pb.add_root("location", loc))
        # near-collision of coordinate systems: the same lower levels re-rooted without their top ancestor (same ids,
        # same locations): what another caller who only knows the lower levels would build in the same process
        if len(h["levels"]) >= 3 and rng.random() < 0.6:
            h2 = copy.deepcopy(h)
            top = h2["levels"][1]
            h2["levels"] = [{"id": top["id"], "sequence_type": top["sequence_type"], "sequence": top["sequence"], "location": None, "parent": None}] + h2["levels"][2:]
            if h2["levels"][0]["sequence"] is not None:
                h2["levels"][0]["sequence"] = dict(h2["levels"][0]["sequence"])
            names.append(pb.add_root("parent", h2))
            loc = specs.gen_location(rng, max(2, h["leaf_len"]), allow_empty=False)
            a = copy.deepcopy(loc)
            a["parent"] = h
            b = copy.deepcopy(loc)
            b["parent"] = h2
            pair = [pb.add_root("location", a), pb.add_root("location", b)]
            rng.shuffle(pair)
            names.extend(pair)
            pb.collision_pairs.append(pair)
        # near-collisions: same location on a truncated hierarchy / without parent
        if rng.random() < 0.5:
            loc = specs.gen_location(rng, max(2, h["leaf_len"]), allow_empty=False)
            a = copy.deepcopy(loc)
            a["parent"] = h
            names.append(pb.add_root("location", a))
            b = copy.deepcopy(loc)
            if rng.random() < 0.5:
                b["parent"] = {"id_only": h["levels"][-1]["id"]}
            names.append(pb.add_root("location", b))
    return names


def gen_plan(rng, check="C10", size=1, max_steps=60, known_avoid=()):
    """size 0..2 scales object count."""
    pb = PlanBuilder(rng)
    theme = rng.choice(["annotation", "annotation", "annotation", "lowlevel", "mixed"])
    roots = []
    if theme in ("annotation", "mixed"):
        roots += _annotation_roots(pb, rng, size)
    if theme in ("lowlevel", "mixed"):
        roots += _lowlevel_roots(pb, rng, size)
    nsess = rng.randint(2, 4)
    sessions = []
    style = rng.random()
    r0 = rng.random()
    focused = r0 < 0.27
    covering = 0.27 <= r0 < 0.47
    repeat_op = 0.47 <= r0 < 0.60
    cursors = 0.60 <= r0 < 0.66
    inherit = 0.66 <= r0 < 0.78
    thrash = 0.78 <= r0 < 0.86  # memo thrash on a CDS / transcript (argument-keyed memos with more tuples than slots)
    if thrash:
        style = 0.4
        nsess = rng.randint(1, 2)
    if focused:
        nsess = rng.randint(1, 3)
        style = 1.0
    if covering:
        # full covering walk: every operation of one kind on one object, in a seed-chosen permutation, from one or
        # two sessions (so that every ordered pair of operations shows up within few runs); kinds chosen evenly
        kinds = sorted({pb.objects[n]["kind"] for n in roots})
        kind = rng.choice(kinds)
        target = rng.choice([n for n in roots if pb.objects[n]["kind"] == kind])
        if pb.sliced and rng.random() < 0.4:
            # objects cut by their sequence chunk keep two sets of books (chunk-relative and chromosome): prefer them
            target = rng.choice(pb.sliced)
            kind = pb.objects[target]["kind"]
        if kind == "transcript" and rng.random() < 0.5:
            st = pb.call_step(0, target, BY_NAME["transcript"]["cds"], store_p=1.0)
            if st and "store" in st:
                sessions.append([st])
                target, kind = st["store"], "cds"
        for s in range(rng.choice([1, 2])):
            ops = list(REGISTRY[kind])
            rng.shuffle(ops)
            steps = []
            for op in ops[: rng.choice([len(ops), len(ops), 40, 25])]:
                st = pb.call_step(len(sessions), target, op, store_p=0.05)
                if st:
                    steps.append(st)
            sessions.append(steps)
        nsess = 0
        max_steps = max(max_steps, 110)
    if cursors:
        # cursor duel: two or three consumers iterate the same lazily answered question on one object, stepped
        # alternately, with other questions to the same object in between
        nsess = 0
        cands = [n for n in roots if any(x in BY_NAME[pb.objects[n]["kind"]] for x in ITER_OPS.get(pb.objects[n]["kind"], ()))]
        if cands:
            target = rng.choice(cands)
            kind = pb.objects[target]["kind"]
            names = sorted(n for n in ITER_OPS[kind] if n in BY_NAME[kind])
            base = None
            for _ in range(6):
                base = pb.call_step(0, target, BY_NAME[kind][rng.choice(names)], store_p=0.0)
                if base:
                    break
            if base:
                ncons = rng.choice([2, 2, 3])
                opens = [dict(copy.deepcopy(base), s=i, lazy={"cur": f"duel{i}", "take": rng.choice([0, 1, 1, 2])}) for i in range(ncons)]
                moves = []
                for i in range(ncons):
                    for take in [1] * rng.randint(0, 2) + [None]:
                        moves.append(dict(copy.deepcopy(base), s=i, resume={"cur": f"duel{i}", "take": take}))
                # keep every consumer's own order, interleave consumers at random
                per = {i: [m for m in moves if m["s"] == i] for i in range(ncons)}
                steps = list(opens)
                rng.shuffle(steps)
                while any(per.values()):
                    i = rng.choice([k for k, v in per.items() if v])
                    steps.append(per[i].pop(0))
                    if rng.random() < 0.4:
                        st = pb.call_step(ncons, target, _pick_op(rng, REGISTRY[kind]), store_p=0.0)
                        if st:
                            steps.append(st)
                sessions.append(steps)
    if inherit:
        # inheritance probe: every argument-less question is asked of X (fills every lazy field and memo X has), then
        # several different derivations Y_i of X are made and every argument-less question is asked of each Y_i -
        # whatever a derivation carries over from its source shows, whichever accessor and derivation it is
        nsess = 0
        kinds = sorted({pb.objects[n]["kind"] for n in roots if _derive_ops(pb.objects[n]["kind"])})
        if kinds:
            kind = rng.choice(kinds)
            x = rng.choice([n for n in roots if pb.objects[n]["kind"] == kind])
            plain = [o for o in REGISTRY[kind] if not o.args]
            rng.shuffle(plain)
            steps = []
            for op in plain[:45]:
                st = pb.call_step(0, x, op, store_p=0.0)
                if st:
                    steps.append(st)
            dops = list(_derive_ops(kind))
            rng.shuffle(dops)
            made = 0
            for dop in dops:
                if made >= 10:
                    break
                st = pb.call_step(0, x, dop, store_p=1.0)
                if not st or "store" not in st:
                    continue
                made += 1
                steps.append(st)
                y = st["store"]
                yk = pb.objects[y]["kind"]
                if yk not in REGISTRY:
                    continue
                yplain = [o for o in REGISTRY[yk] if not o.args]
                rng.shuffle(yplain)
                # the questions known to keep state (lazy fields, memos) come first, the rest fills up
                yplain.sort(key=lambda o: o.name not in STATEFUL)
                for op in yplain[:24]:
                    st2 = pb.call_step(0, y, op, store_p=0.0)
                    if st2:
                        steps.append(st2)
            sessions.append(steps)
            max_steps = max(max_steps, 320)
    if repeat_op:
        # the same question with different arguments, repeated: thrashes every argument-keyed memo / index
        nsess = 0
        for s in range(rng.randint(1, 2)):
            target = rng.choice(roots)
            colls = [n for n in roots if pb.objects[n]["kind"] == "collection"]
            if colls and rng.random() < 0.4:
                target = rng.choice(colls)
            kind = pb.objects[target]["kind"]
            argops = [o for o in REGISTRY[kind] if o.args and "twin" not in o.args] or list(REGISTRY[kind])
            queries = [o for o in argops if o.name.startswith("query_")]
            if queries and rng.random() < 0.6:
                # look-ups by identifier / guid / position: where lazily built indexes and argument-keyed memos live
                argops = queries
            chosen = [_pick_op(rng, argops) for _ in range(rng.randint(1, 2))]
            steps = []
            for _ in range(rng.randint(5, 12)):
                st = pb.call_step(s, target, rng.choice(chosen), store_p=0.3 if argops is queries else 0.05)
                if st:
                    steps.append(st)
                    if rng.random() < 0.25:  # and the very same arguments again, later
                        steps.append(copy.deepcopy({k: v for k, v in st.items() if k != "store"}))
                    if "store" in st and pb.objects[st["store"]]["kind"] == kind and '"$"' not in json.dumps(st.get("args", [])):
                        # query of a query result: the same window asked of the answer, then of the source again with
                        # the boolean switches flipped (the result may be empty, cut, or on another coordinate system)
                        base_ = {k: v for k, v in st.items() if k != "store"}
                        steps.append(dict(copy.deepcopy(base_), obj=st["store"]))
                        flipped = copy.deepcopy(base_)
                        flipped["args"] = [(not a) if isinstance(a, bool) and rng.random() < 0.5 else a for a in flipped["args"]]
                        steps.append(flipped)
            rng.shuffle(steps) if rng.random() < 0.3 else None
            sessions.append(steps)
    for s in range(nsess):
        steps = []
        if focused:
            steps, chain = _focused_session(pb, rng, s, roots)
            if rng.random() < 0.5:
                roots.extend(chain[1:])
            sessions.append(steps)
            continue
        if style < 0.3 and s < 2:
            # covering walk: permutation of the whole accessor list of one object, from two sessions
            target = roots[0] if rng.random() < 0.5 else rng.choice(roots)
            if s == 1 and sessions and sessions[0]:
                target = sessions[0][0]["obj"]
            kind = pb.objects[target]["kind"]
            ops = list(REGISTRY[kind])
            rng.shuffle(ops)
            for op in ops[: rng.randint(12, 30)]:
                st = pb.call_step(s, target, op, store_p=0.15)
                if st:
                    steps.append(st)
        elif style < 0.45 and s == 0:
            # memo thrash: argument-keyed memos with more distinct tuples than maxsize
            cands = [n for n in roots if pb.objects[n]["kind"] in ("cds", "transcript")]
            if cands:
                special = [n for n in pb.sliced if n in cands]
                orfs = [n for n in pb.orf_roots if n in cands]
                target = rng.choice(orfs) if orfs and rng.random() < 0.5 else (rng.choice(special) if special and rng.random() < 0.6 else rng.choice(cands))
                kind = pb.objects[target]["kind"]
                names = (["translate(args)", "scan_chunk_relative_codon_locations", "scan_chromosome_codon_locations",
                          "translate", "extract_sequence", "chunk_relative_codon_locations"]
                         if kind == "cds" else ["get_protein_sequence(args)", "get_protein_sequence", "get_cds_sequence", "cds"])
                for _ in range(rng.randint(10, 28)):
                    op = BY_NAME[kind][rng.choice(names)]
                    st = pb.call_step(s, target, op, store_p=0.1)
                    if st:
                        steps.append(st)
        if not steps:
            wf = rng.choice(list(WORKFLOWS))
            targets = [rng.choice(roots) for _ in range(rng.randint(1, 3))]
            for _ in range(rng.randint(5, 18)):
                target = rng.choice(targets)
                kind = pb.objects[target]["kind"]
                op = _pick_op(rng, _ops_for(kind, wf if rng.random() < 0.75 else "any"))
                st = pb.call_step(s, target, op)
                if st:
                    steps.append(st)
                    if "store" in st and rng.random() < 0.7:
                        targets.append(st["store"])
                        if rng.random() < 0.5:
                            roots.append(st["store"])  # visible to later sessions too
        sessions.append(steps)
    base_steps = sum(len(x) for x in sessions)
    # spotlight: a root with unusual book-keeping (cut by its chunk, overlapping CDS blocks) gets a short session of its
    # own made of the questions that keep two sets of books (codon locations vs sequence), in a seed-chosen order
    for n in pb.overlap_roots:
        # the codon that spans an overlap exists in two forms (a Location in genome order, bases in reading order): the
        # codon-location questions and the sequence questions are asked in both orders
        first, second = (["chunk_relative_codon_locations", "chromosome_codon_locations"], ["translate", "extract_sequence", "scan_codons"])
        if rng.random() < 0.35:
            first, second = second, first
        steps = []
        for x in [rng.choice(first)] + rng.sample(second, 2) + [rng.choice(first)]:
            st = pb.call_step(len(sessions), n, BY_NAME["cds"][x], store_p=0.0)
            if st:
                steps.append(st)
        if steps:
            sessions.append(steps)
    for n in pb.sliced:
        if rng.random() < 0.6:
            kind = pb.objects[n]["kind"]
            names = (["chunk_relative_codon_locations", "extract_sequence", "translate", "num_codons", "scan_codons", "chromosome_codon_locations",
                      "scan_chunk_relative_codon_locations", "has_valid_stop", "has_start_codon", "translate(args)"]
                     if kind == "cds" else ["get_protein_sequence", "get_cds_sequence", "cds", "get_transcript_sequence", "get_protein_sequence(args)",
                                            "get_5p_interval", "get_3p_interval", "cds_pos_to_transcript", "transcript_pos_to_cds", "cds_pos_to_sequence",
                                            "sequence_pos_to_cds", "cds_interval_to_sequence", "cds_location", "chunk_relative_codon_locations", "translate",
                                            "extract_sequence", "num_codons", "cds_size"])
            names = [x for x in names if x in BY_NAME[kind]]
            rng.shuffle(names)
            steps = []
            for x in names[: rng.randint(2, 8)]:
                st = pb.call_step(len(sessions), n, BY_NAME[kind][x], store_p=0.0)
                if st:
                    steps.append(st)
            if steps:
                sessions.append(steps)
    # spelling twins: two unrelated coordinate systems (other ids) whose type one caller spells SequenceType.CHROMOSOME and the
    # other "chromosome" (equal and equal-hashing, another type): what each is told about its type must not depend on who
    # came first
    if theme in ("lowlevel", "mixed") and rng.random() < 0.2:
        pair = []
        for i_, raw in enumerate(rng.sample([False, True], 2)):
            h_ = {"levels": [{"id": f"sp{len(pb.objects)}_{i_}", "sequence_type": rng.choice(["chromosome", "sequence_chunk"]) if i_ == 0 else None,
                              "sequence_type_raw": raw, "sequence": None, "location": None, "parent": None}], "leaf_len": 50}
            if i_ == 1:
                h_["levels"][0]["sequence_type"] = pair[0][1]["levels"][0]["sequence_type"]
            pair.append((pb.add_root("parent", h_), h_))
        steps = []
        for n, _ in pair:
            for x in rng.sample(["sequence_type", "first_ancestor_of_type(self)", "has_ancestor_of_type(self)", "__repr__", "strip_location_info"], 3):
                st = pb.call_step(len(sessions), n, BY_NAME["parent"][x], store_p=0.0)
                if st:
                    steps.append(st)
        if steps:
            sessions.append(steps)
    # roots with a real ORF: the protein / start-codon questions under every translation table and both truncation flags
    for n in pb.orf_roots:
        if rng.random() < 0.5:
            kind = pb.objects[n]["kind"]
            qs = [x for x in (("translate(args)", "translate", "has_start_codon_in_specific_translation_table", "scan_codons") if kind == "cds"
                              else ("get_protein_sequence(args)", "get_protein_sequence", "has_start_codon_in_specific_translation_table")) if x in BY_NAME[kind]]
            steps = []
            for _ in range(rng.randint(4, 9)):
                st = pb.call_step(len(sessions), n, BY_NAME[kind][rng.choice(qs)], store_p=0.0)
                if st:
                    steps.append(st)
            if steps:
                sessions.append(steps)
    # strain twins (same names and coordinates, other bases) are asked the very same windows one after the other, and the
    # results are asked for their sequences: whatever is remembered per (name, window) rather than per content shows
    for pair in pb.strain_twins:
        if rng.random() < 0.6:
            a_, b_ = rng.sample(list(pair), 2)
            steps = []
            for _ in range(rng.randint(1, 3)):
                st = pb.call_step(len(sessions), a_, BY_NAME["collection"]["query_by_position"], store_p=1.0)
                if not st or "store" not in st:
                    continue
                steps.append(st)
                st2 = {"s": len(sessions), "t": "call", "obj": b_, "op": st["op"], "args": copy.deepcopy(st["args"])}
                st2["store"] = pb.add_derived(b_, "collection", st["op"], st2["args"])
                steps.append(st2)
                for res in (st["store"], st2["store"]):
                    for x in rng.sample(["get_reference_sequence", "to_dict(crc,parent)", "child", "sequence"], 2):
                        st3 = pb.call_step(len(sessions), res, BY_NAME["collection"][x], store_p=0.0)
                        if st3:
                            steps.append(st3)
            if steps:
                sessions.append(steps)
    # collections on a sequence chunk (their sequence has an identifier of its own) are exported into a disk that fills up in
    # the last fifth of the file - the FASTA section when sequences are asked for - and interrogated afterwards: a failed
    # export must leave its operand as it was
    for n in list(pb.objects):
        o_ = pb.objects[n]
        if o_.get("kind") == "collection" and "spec" in o_ and (o_["spec"].get("parent") or {}).get("mode") == "chunk" and rng.random() < 0.4:
            sid = len(sessions)
            steps = [{"s": sid, "t": "call", "obj": n, "op": "collection_to_gff3(disk full at write k)", "args": [True, False, rng.choice([4, 5, 5])]}]
            if rng.random() < 0.5:
                steps.append({"s": sid, "t": "call", "obj": n, "op": "collection_to_genbank(disk full at write k)", "args": [rng.random() < 0.5, True, rng.choice([3, 5])]})
            for x in rng.sample(["sequence", "__eq__", "hash==twin", "get_reference_sequence", "to_dict(crc,parent)", "collection_to_gff3"], 3):
                st = pb.call_step(sid, n, BY_NAME["collection"][x], store_p=0.0)
                if st:
                    steps.append(st)
            sessions.append(steps)
    # order twins are asked the order-sensitive questions one after the other (either one first)
    for pair in pb.order_twins:
        pair = list(pair)
        rng.shuffle(pair)
        steps = []
        for n in pair:
            kind = pb.objects[n]["kind"]
            qs = [x for x in ("primary_transcript", "get_primary_transcript", "get_primary_cds", "get_primary_protein", "primary_feature", "get_primary_feature",
                              "iter_children", "children_guids", "get_merged_transcript", "get_merged_feature", "to_dict", "guid") if x in BY_NAME[kind]]
            rng.shuffle(qs)
            for x in qs[: rng.randint(2, 5)]:
                st = pb.call_step(len(sessions), n, BY_NAME[kind][x], store_p=0.0)
                if st:
                    steps.append(st)
        if steps:
            sessions.append(steps)
    # two callers describe a child placed on "the same" location of near-colliding coordinate systems
    for pair in pb.collision_pairs:
        steps = []
        if rng.random() < 0.5:
            # the two callers only *use* their locations (lift-overs, ancestor questions, sequence extraction ...), turn
            # by turn: whatever the process-wide caches key too coarsely shows without the known Parent(location=...) case
            for _ in range(rng.randint(2, 5)):
                for n in pair:
                    st = pb.call_step(len(sessions), n, _pick_op(rng, REGISTRY["location"]), store_p=0.0)
                    if st and st["op"] != "Parent(location=self)":
                        steps.append(st)
            sessions.append(steps)
            continue
        for n in pair:
            st = pb.call_step(len(sessions), n, BY_NAME["location"]["Parent(location=self)"], store_p=0.6)
            if st:
                steps.append(st)
                if "store" in st:
                    for _ in range(rng.randint(0, 2)):
                        st2 = pb.call_step(len(sessions), st["store"], _pick_op(rng, REGISTRY["parent"]), store_p=0.0)
                        if st2:
                            steps.append(st2)
        sessions.append(steps)
    # the special-purpose sessions added above come on top of the history budget (they must not crowd out the others)
    max_steps += sum(len(x) for x in sessions) - base_steps
    # noise session
    fault_rate = rng.choice([0.0, 0.08, 0.15, 0.25])
    enabled = [k for k in ("flood", "gc", "touch") if rng.random() < 0.75]
    # echo: the very same question (same object, same arguments) asked again - straight away or at the end of the
    # history.  The cheapest history there is; every answer that is computed lazily, validated lazily or served from a
    # cache on the second call has to survive it
    echo_p = rng.choice([0.0, 0.0, 0.08, 0.2, 0.45])
    cross_p = rng.choice([0.0, 0.0, 0.15, 0.35])
    late_echoes = []
    # lazily consumed answers: operations that return an iterator are, with a per-plan probability, opened as a cursor
    # (first 0-3 items taken), resumed once or twice further down the history (other sessions run in between) and
    # drained at the end; every part must equal the same part of the answer drained alone in a pristine process
    lazy_p = rng.choice([0.0, 0.5, 0.9])
    pending = []  # resume steps waiting to be placed
    ncur = 0
    # interleave
    order = []
    idx = [0] * len(sessions)
    remaining = sum(len(s) for s in sessions)
    while remaining and len(order) < max_steps:
        live = [i for i, s in enumerate(sessions) if idx[i] < len(s)]
        # sticky scheduler: sometimes run bursts of one session
        i = rng.choice(live)
        burst = rng.choice([1, 1, 1, 2, 4])
        for _ in range(burst):
            if idx[i] < len(sessions[i]) and len(order) < max_steps:
                order.append(sessions[i][idx[i]])
                idx[i] += 1
                remaining -= 1
                last = order[-1]
                if (lazy_p and last.get("t") == "call" and "store" not in last and "lazy" not in last and "resume" not in last and last["op"] in ITER_OPS.get(pb.objects[last["obj"]]["kind"], ())
                        and rng.random() < lazy_p):
                    cur = f"cur{ncur}"
                    ncur += 1
                    base = copy.deepcopy(last)
                    last["lazy"] = {"cur": cur, "take": rng.choice([0, 1, 1, 2, 3])}
                    if rng.random() < 0.5:
                        # a second consumer asks the same question in full (or opens its own cursor) while the first is half way
                        second = copy.deepcopy(base)
                        if rng.random() < 0.4:
                            cur2 = f"cur{ncur}"
                            ncur += 1
                            second["lazy"] = {"cur": cur2, "take": rng.choice([1, 2])}
                            pending.append(second)
                            pending.append(dict(copy.deepcopy(base), resume={"cur": cur2, "take": None}))
                        else:
                            pending.append(second)
                    for take in ([rng.choice([1, 2, 4])] if rng.random() < 0.6 else []) + [None]:
                        pending.append(dict(copy.deepcopy(base), resume={"cur": cur, "take": take}))
                elif pending and rng.random() < 0.3:
                    order.append(pending.pop(0))
                if (cross_p and last.get("t") == "call" and "lazy" not in last and "resume" not in last and '"$"' not in json.dumps(last.get("args", []))
                        and rng.random() < cross_p):
                    # the same question with the very same arguments, asked of ANOTHER object of the same kind (a twin,
                    # a query result, a sibling): whatever is memoised per argument tuple process-wide rather than per
                    # object leaks between the two
                    kind_ = pb.objects[last["obj"]]["kind"]
                    others = [n for n, o in pb.objects.items() if o["kind"] == kind_ and n != last["obj"]]
                    if others:
                        base_ = {k: v for k, v in last.items() if k != "store"}
                        order.append(dict(copy.deepcopy(base_), obj=rng.choice(others)))
                        if rng.random() < 0.5:
                            order.append(copy.deepcopy(base_))  # ... and of the first object again
                if echo_p and order[-1].get("t") == "call" and "lazy" not in order[-1] and "resume" not in order[-1] and rng.random() < echo_p:
                    echo = copy.deepcopy({k: v for k, v in order[-1].items() if k != "store"})
                    if rng.random() < 0.5:
                        order.append(echo)
                    else:
                        late_echoes.append(echo)
                if enabled and rng.random() < fault_rate:
                    k = rng.choice(enabled)
                    if k == "flood":
                        order.append({"s": 9, "t": "flood", "n": rng.choice(FLOOD_SIZES)})
                    elif k == "gc":
                        order.append({"s": 9, "t": "gc"})
                    else:
                        order.append({"s": 9, "t": "touch", "obj": rng.choice(list(pb.objects))})
    order.extend(pending[:30])
    order.extend(late_echoes[:40])
    # evict, then ask again: with p = 0.3 the history ends with a flood that certainly empties the Parent cache (and thrashes
    # the value tables), followed by verbatim repeats of up to 8 questions asked before - whatever was only right while a
    # cache still held an entry shows, whichever question it is
    if rng.random() < 0.3:
        asked = [st_ for st_ in order if st_.get("t") == "call" and "store" not in st_ and "lazy" not in st_ and "resume" not in st_]
        if asked:
            picks = rng.sample(asked, min(len(asked), rng.randint(3, 8)))
            order.append({"s": 9, "t": "flood", "n": 1200})
            order.extend(copy.deepcopy(picks))
    # drop stored-object recipes whose defining step fell beyond max_steps, and steps that use them
    plan = {"check": check, "objects": pb.objects, "steps": order}
    return normalize(plan)


def refs_in(x):
    out = []
    if isinstance(x, dict):
        if x.get("$") in ("ref", "twin", "guids") and "n" in x:
            out.append(x["n"])
        for v in x.values():
            out.extend(refs_in(v))
    elif isinstance(x, list):
        for v in x:
            out.extend(refs_in(v))
    return out


def normalize(plan):
    """Make a (possibly reduced) plan well-formed: drop steps that use objects never defined (a stored object whose
    defining step was removed), then drop unused recipes."""
    objects = plan["objects"]
    defined = {n for n, r in objects.items() if "spec" in r}
    steps = []
    for st in plan["steps"]:
        if st["t"] in ("flood", "gc"):
            steps.append(st)
            continue
        need = [st["obj"]] + refs_in(st.get("args", []))
        if all(n in defined for n in need):
            steps.append(st)
            if "store" in st:
                defined.add(st["store"])
    used = set()
    for st in steps:
        if st["t"] in ("call", "touch"):
            used.add(st["obj"])
            used.update(refs_in(st.get("args", [])))
            if "store" in st:
                used.add(st["store"])
    # close over derivation sources
    changed = True
    while changed:
        changed = False
        for n in list(used):
            r = objects.get(n)
            if r and "from" in r:
                for m in [r["from"]] + refs_in(r["args"]):
                    if m not in used:
                        used.add(m)
                        changed = True
    out = dict(plan)
    out["objects"] = {n: r for n, r in objects.items() if n in used}
    out["steps"] = steps
    return out
