"""Turn pure-data specs (bcsim.specs) into live BioCantor objects.  Only this module, bcsim.ops and the checks call the
library.  Every builder returns ``(obj, inputs)`` where ``inputs`` is the materialised copy of the spec whose lists were
handed to the constructors (so the harness can check the library did not modify its caller's lists)."""
import copy

from bcsim import compat

compat.install()

from inscripta.biocantor.location.strand import Strand  # noqa: E402
from inscripta.biocantor.location.location_impl import SingleInterval, CompoundInterval, EmptyLocation  # noqa: E402
from inscripta.biocantor.parent.parent import Parent, SequenceType  # noqa: E402
from inscripta.biocantor.sequence.sequence import Sequence  # noqa: E402
from inscripta.biocantor.sequence.alphabet import Alphabet  # noqa: E402
from inscripta.biocantor.gene.cds_frame import CDSFrame  # noqa: E402
from inscripta.biocantor.gene.cds import CDSInterval  # noqa: E402
from inscripta.biocantor.gene.biotype import Biotype  # noqa: E402
from inscripta.biocantor.gene.transcript import TranscriptInterval  # noqa: E402
from inscripta.biocantor.gene.feature import FeatureInterval, FeatureIntervalCollection  # noqa: E402
from inscripta.biocantor.gene.gene import GeneInterval  # noqa: E402
from inscripta.biocantor.gene.variants import VariantInterval, VariantIntervalCollection  # noqa: E402
from inscripta.biocantor.gene.collections import AnnotationCollection  # noqa: E402
from inscripta.biocantor.io.parser import seq_to_parent, seq_chunk_to_parent  # noqa: E402


def _uuid(x):
    import uuid

    return uuid.UUID(x) if x else None


def seqtype(x):
    if x is None:
        return None
    if x == "chromosome":
        return SequenceType.CHROMOSOME
    if x == "sequence_chunk":
        return SequenceType.SEQUENCE_CHUNK
    return x


def build_parent(p):
    """parent_or_seq_chunk_parent from a {"mode","genome","chunk"} description."""
    if p is None or p["mode"] == "none":
        return None
    g = p["genome"]
    alphabet = Alphabet[g.get("alphabet", "NT_EXTENDED_GAPPED")]
    if p["mode"] == "chrom":
        return seq_to_parent(g["seq"], alphabet=alphabet, seq_id=g["id"])
    if p["mode"] == "chrom_noseq":
        return Parent(id=g["id"], sequence_type=SequenceType.CHROMOSOME)
    if p["mode"] == "chunk":
        a, b = p["chunk"]
        return seq_chunk_to_parent(g["seq"][a:b], g["id"], a, b, Strand.PLUS, alphabet)
    raise ValueError(p["mode"])


def _frames(names):
    return [CDSFrame[n] for n in names] if names is not None else None


def build_transcript(spec, parent=None, guid=None):
    s = copy.deepcopy(spec)
    obj = TranscriptInterval(
        exon_starts=s["exon_starts"],
        exon_ends=s["exon_ends"],
        strand=Strand[s["strand"]],
        cds_starts=s.get("cds_starts"),
        cds_ends=s.get("cds_ends"),
        cds_frames=_frames(s.get("cds_frames")),
        qualifiers=s.get("qualifiers"),
        is_primary_tx=s.get("is_primary_tx"),
        transcript_id=s.get("transcript_id"),
        transcript_symbol=s.get("transcript_symbol"),
        transcript_type=Biotype[s["transcript_type"]] if s.get("transcript_type") else None,
        sequence_name=s.get("sequence_name"),
        sequence_guid=_uuid(s.get("sequence_guid")),
        protein_id=s.get("protein_id"),
        product=s.get("product"),
        guid=guid,
        parent_or_seq_chunk_parent=parent,
    )
    return obj, s


def build_cds(spec, parent=None):
    """A stand-alone CDSInterval from the CDS part of a transcript spec."""
    s = copy.deepcopy(spec)
    obj = CDSInterval(
        cds_starts=s["cds_starts"],
        cds_ends=s["cds_ends"],
        strand=Strand[s["strand"]],
        frames_or_phases=_frames(s["cds_frames"]),
        sequence_name=s.get("sequence_name"),
        sequence_guid=_uuid(s.get("sequence_guid")),
        protein_id=s.get("protein_id"),
        product=s.get("product"),
        qualifiers=s.get("qualifiers"),
        parent_or_seq_chunk_parent=parent,
    )
    return obj, s


def build_feature(spec, parent=None):
    s = copy.deepcopy(spec)
    obj = FeatureInterval(
        interval_starts=s["interval_starts"],
        interval_ends=s["interval_ends"],
        strand=Strand[s["strand"]],
        qualifiers=s.get("qualifiers"),
        sequence_name=s.get("sequence_name"),
        sequence_guid=_uuid(s.get("sequence_guid")),
        feature_types=s.get("feature_types"),
        feature_name=s.get("feature_name"),
        feature_id=s.get("feature_id"),
        is_primary_feature=s.get("is_primary_feature"),
        parent_or_seq_chunk_parent=parent,
    )
    return obj, s


def build_gene(spec, parent=None):
    s = copy.deepcopy(spec)
    txs = []
    mats = []
    for t in s["transcripts"]:
        tx, m = build_transcript(t, parent)
        txs.append(tx)
        mats.append(m)
    s["transcripts"] = mats
    obj = GeneInterval(
        transcripts=txs,
        gene_id=s.get("gene_id"),
        gene_symbol=s.get("gene_symbol"),
        gene_type=Biotype[s["gene_type"]] if s.get("gene_type") else None,
        locus_tag=s.get("locus_tag"),
        qualifiers=s.get("qualifiers"),
        sequence_name=s.get("sequence_name"),
        sequence_guid=_uuid(s.get("sequence_guid")),
        parent_or_seq_chunk_parent=parent,
    )
    return obj, s


def build_feature_collection(spec, parent=None):
    s = copy.deepcopy(spec)
    feats, mats = [], []
    for f in s["feature_intervals"]:
        fo, m = build_feature(f, parent)
        feats.append(fo)
        mats.append(m)
    s["feature_intervals"] = mats
    obj = FeatureIntervalCollection(
        feature_intervals=feats,
        feature_collection_name=s.get("feature_collection_name"),
        feature_collection_id=s.get("feature_collection_id"),
        feature_collection_type=s.get("feature_collection_type"),
        locus_tag=s.get("locus_tag"),
        sequence_name=s.get("sequence_name"),
        sequence_guid=_uuid(s.get("sequence_guid")),
        qualifiers=s.get("qualifiers"),
        parent_or_seq_chunk_parent=parent,
    )
    return obj, s


def build_variant(spec, parent=None):
    s = copy.deepcopy(spec)
    obj = VariantInterval(
        start=s["start"],
        end=s["end"],
        sequence=s["sequence"],
        variant_type=s["variant_type"],
        phase_block=s.get("phase_block"),
        variant_name=s.get("variant_name"),
        variant_id=s.get("variant_id"),
        qualifiers=s.get("qualifiers"),
        parent_or_seq_chunk_parent=parent,
    )
    return obj, s


def build_variant_collection(spec, parent=None):
    s = copy.deepcopy(spec)
    vs, mats = [], []
    for v in s["variant_intervals"]:
        vo, m = build_variant(v, parent)
        vs.append(vo)
        mats.append(m)
    s["variant_intervals"] = mats
    obj = VariantIntervalCollection(
        variant_intervals=vs,
        variant_collection_name=s.get("variant_collection_name"),
        variant_collection_id=s.get("variant_collection_id"),
        sequence_name=s.get("sequence_name"),
        qualifiers=s.get("qualifiers"),
        parent_or_seq_chunk_parent=parent,
    )
    return obj, s


def build_collection(spec, parent="__from_spec__"):
    s = copy.deepcopy(spec)
    if parent == "__from_spec__":
        parent = build_parent(s.get("parent"))
    genes, fcs, vcs = [], [], []
    gm, fm, vm = [], [], []
    for g in s.get("genes") or []:
        o, m = build_gene(g, parent)
        genes.append(o)
        gm.append(m)
    for f in s.get("feature_collections") or []:
        o, m = build_feature_collection(f, parent)
        fcs.append(o)
        fm.append(m)
    for v in s.get("variant_collections") or []:
        o, m = build_variant_collection(v, parent)
        vcs.append(o)
        vm.append(m)
    s["genes"], s["feature_collections"], s["variant_collections"] = gm, fm, vm
    obj = AnnotationCollection(
        feature_collections=fcs or None,
        genes=genes or None,
        variant_collections=vcs or None,
        name=s.get("name"),
        id=s.get("id"),
        sequence_name=s.get("sequence_name"),
        sequence_guid=_uuid(s.get("sequence_guid")),
        qualifiers=s.get("qualifiers"),
        start=s.get("start"),
        end=s.get("end"),
        completely_within=s.get("completely_within"),
        parent_or_seq_chunk_parent=parent,
    )
    return obj, s


# ---------------------------------------------------------------------------------------------------------------
# low-level kinds


def build_sequence(sd, parent=None):
    return Sequence(sd["data"], Alphabet[sd["alphabet"]], id=sd.get("id"), type=seqtype(sd.get("type")), parent=parent)


def build_hierarchy(h, upto=None):
    """Parent object for the innermost level of a specs.gen_parent_hierarchy description."""
    levels = h["levels"] if upto is None else h["levels"][: upto + 1]
    top = levels[0]
    kwargs = {}
    if top.get("id") is not None:
        kwargs["id"] = top["id"]
    if top.get("sequence_type") is not None:
        # "sequence_type_raw": the caller spells the type as a plain string ("chromosome") instead of the SequenceType member
        kwargs["sequence_type"] = top["sequence_type"] if top.get("sequence_type_raw") else seqtype(top["sequence_type"])
    if top.get("sequence") is not None:
        kwargs["sequence"] = build_sequence(top["sequence"])
    cur = Parent(**kwargs)
    for lvl in levels[1:]:
        if lvl.get("sequence") is None:
            # sequence-less level: the child's parent attribute is the upper level carrying the child's location
            loc = build_location(lvl["location_on_parent"], parent=None)
            cur = Parent(id=lvl["id"], sequence_type=seqtype(lvl["sequence_type"]), parent=cur.reset_location(loc))
            continue
        loc = build_location(lvl["location_on_parent"], parent=cur)
        cur = Parent(
            id=lvl["id"],
            sequence=build_sequence(lvl["sequence"], parent=Parent(location=loc)),
        )
    return cur


def build_location(ld, parent="__from_spec__"):
    if ld["type"] == "empty":
        return EmptyLocation()
    if parent == "__from_spec__":
        pd = ld.get("parent")
        if pd is None:
            parent = None
        elif "levels" in pd:
            parent = build_hierarchy(pd)
        elif "mode" in pd:
            parent = build_parent(pd)
        elif "id_only" in pd:
            parent = pd["id_only"]
        else:
            raise ValueError(pd)
    strand = Strand[ld["strand"]]
    if ld["type"] == "single":
        return SingleInterval(ld["start"], ld["end"], strand, parent=parent)
    return CompoundInterval(list(ld["starts"]), list(ld["ends"]), strand, parent=parent)


def _innermost_sequence(h):
    """The Sequence of the innermost level of a hierarchy that has one (with its parent chain attached)."""
    for upto in range(len(h["levels"]) - 1, -1, -1):
        p = build_hierarchy(h, upto=upto)
        if p.sequence is not None:
            return p.sequence
    return Sequence("ACGTACGTAC", Alphabet.NT_STRICT)


BUILDERS = {
    "collection": lambda spec: build_collection(spec),
    "gene": lambda spec: build_gene(spec, build_parent(spec.get("parent"))),
    "transcript": lambda spec: build_transcript(spec, build_parent(spec.get("parent"))),
    "cds": lambda spec: build_cds(spec, build_parent(spec.get("parent"))),
    "feature": lambda spec: build_feature(spec, build_parent(spec.get("parent"))),
    "feature_collection": lambda spec: build_feature_collection(spec, build_parent(spec.get("parent"))),
    "variant": lambda spec: build_variant(spec, build_parent(spec.get("parent"))),
    "variant_collection": lambda spec: build_variant_collection(spec, build_parent(spec.get("parent"))),
    "location": lambda spec: (build_location(spec), copy.deepcopy(spec)),
    "parent": lambda spec: (build_hierarchy(spec), copy.deepcopy(spec)),
    "sequence": lambda spec: (_innermost_sequence(spec), copy.deepcopy(spec)),
}


def build_root(kind, spec):
    return BUILDERS[kind](spec)


# ---------------------------------------------------------------------------------------------------------------
# by-value twins of low-level objects: rebuilt from nothing but the values an object carries (public members; for
# Parent the constructor arguments it stores), through the public constructors.  Used by the C10 "equal by value ->
# equal answers" oracle on DERIVED objects (results of operations), whose recipe-built twins share their provenance.


def describe_value(o, _depth=0):
    """Plain (picklable, library-free) description of the values an object carries."""
    if o is None:
        return None
    if _depth > 12:
        raise ValueError("hierarchy too deep to describe")
    n = type(o).__name__
    d = _depth + 1
    if n == "Sequence":
        return {"k": "Sequence", "data": str(o), "alphabet": o.alphabet.name, "id": o.id, "type": _st_out(o.sequence_type), "parent": describe_value(o.parent, d)}
    if n == "Parent":
        return {"k": "Parent", "id": o.id, "type": _st_out(o.sequence_type), "strand": o._strand.name if o._strand is not None else None,
                "location": describe_value(o.location, d), "sequence": describe_value(o.sequence, d), "parent": describe_value(o.parent, d)}
    if n == "SingleInterval":
        return {"k": "SingleInterval", "start": o.start, "end": o.end, "strand": o.strand.name, "parent": describe_value(o.parent, d)}
    if n == "CompoundInterval":
        return {"k": "CompoundInterval", "starts": list(o._starts), "ends": list(o._ends), "strand": o.strand.name, "parent": describe_value(o.parent, d)}
    if n == "_EmptyLocation":
        return {"k": "EmptyLocation"}
    if n in ("TranscriptInterval", "CDSInterval", "FeatureInterval", "VariantInterval", "GeneInterval", "FeatureIntervalCollection",
             "VariantIntervalCollection", "AnnotationCollection"):
        # the documented value form of an interval is its dictionary; its coordinate system is the parent it lives on
        return {"k": n, "dict": o.to_dict(), "parent": describe_value(o._parent_or_seq_chunk_parent, d)}
    raise TypeError(n)


def _st_out(t):
    return None if t is None else (["enum", t.name] if isinstance(t, SequenceType) else ["str", str(t)])


def _st_in(t):
    return None if t is None else (SequenceType[t[1]] if t[0] == "enum" else t[1])


def build_from_description(d):
    if d is None:
        return None
    k = d["k"]
    if k == "Sequence":
        return Sequence(d["data"], Alphabet[d["alphabet"]], id=d["id"], type=_st_in(d["type"]), parent=build_from_description(d["parent"]), validate_alphabet=False)
    if k == "Parent":
        return Parent(id=d["id"], sequence_type=_st_in(d["type"]), strand=Strand[d["strand"]] if d["strand"] else None, location=build_from_description(d["location"]),
                      sequence=build_from_description(d["sequence"]), parent=build_from_description(d["parent"]))
    if k == "SingleInterval":
        return SingleInterval(d["start"], d["end"], Strand[d["strand"]], parent=build_from_description(d["parent"]))
    if k == "CompoundInterval":
        return CompoundInterval(list(d["starts"]), list(d["ends"]), Strand[d["strand"]], parent=build_from_description(d["parent"]))
    if k == "EmptyLocation":
        return EmptyLocation()
    cls = {"TranscriptInterval": TranscriptInterval, "CDSInterval": CDSInterval, "FeatureInterval": FeatureInterval, "VariantInterval": VariantInterval,
           "GeneInterval": GeneInterval, "FeatureIntervalCollection": FeatureIntervalCollection, "VariantIntervalCollection": VariantIntervalCollection,
           "AnnotationCollection": AnnotationCollection}[k]
    return cls.from_dict(d["dict"], build_from_description(d["parent"]))


def rebuild_by_value(o):
    return build_from_description(describe_value(o))
