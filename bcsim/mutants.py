"""Sensitivity self-test: plant one breakage at a time in a scratch copy of /repo (outside /repo and /verif), run the
property's quick check against the copy, require a VIOLATION whose replay reproduced, delete the copy.

    ./vcheck selftest mutants [ID ...] [--only name] [--runs N] [--keep]
Also runs seeded changes kept under /verif/seeded/<id>/patch.diff with `--seeded`.
"""
import json
import os
import shutil
import subprocess
import sys
import tempfile
import time

VERIF = os.path.dirname(os.path.dirname(os.path.abspath(__file__)))
G = "inscripta/biocantor/"

# (name, property, file, old, new, what)
MUTANTS = [
    (
        "c10_frames_reversed_in_place", "C10", G + "gene/cds.py",
        "            if self.strand == Strand.MINUS:\n                yield from reversed(self.frames)\n",
        "            if self.strand == Strand.MINUS:\n                self.frames.reverse()\n                yield from self.frames\n",
        "frame iterator reverses the CDS's own frame list in place (operand mutated by a read-only question)",
    ),
    (
        "c10_grandparent_identity", "C10", G + "parent/parent.py",
        "        if self.parent and other.parent and self.parent != other.parent:\n",
        "        if self.parent and other.parent and self.parent is not other.parent:\n",
        "parents compared by identity: equal only while the Parent LRU cache still holds the first instance (breaks after eviction)",
    ),
    (
        "c10_chromosome_location_class_cache", "C10", G + "gene/interval.py",
        "    @lru_cache(maxsize=1)\n    @property\n    def chromosome_location(self) -> Location:\n        \"\"\"Returns the Location of this in *chromosome coordinates*.\n\n        If the coordinate system is unknown, this will return the same coordinate system as\n        ``chunk_relative_location``, that is the true underlying ``_location`` member.\n\n        This Location object will always have the full span of the Interval in chromosome coordinates,\n        even if this feature exists in chunk relative coordinates. As a result of this, if this\n        Interval was built on chunk relative coordinates, the sequence information will not be present.\n        \"\"\"\n        if self._parent_or_seq_chunk_parent and self._parent_or_seq_chunk_parent.has_ancestor_of_type(\n            SequenceType.CHROMOSOME\n        ):\n            parent = self._parent_or_seq_chunk_parent.first_ancestor_of_type(SequenceType.CHROMOSOME)\n            return CompoundInterval(",
        "    _CLS_LOC_CACHE = {}\n\n    @property\n    def chromosome_location(self) -> Location:\n        key = (tuple(self._genomic_starts), tuple(self._genomic_ends), self._strand)\n        if key not in AbstractFeatureInterval._CLS_LOC_CACHE:\n            AbstractFeatureInterval._CLS_LOC_CACHE[key] = self._chromosome_location_uncached()\n        return AbstractFeatureInterval._CLS_LOC_CACHE[key]\n\n    def _chromosome_location_uncached(self) -> Location:\n        if self._parent_or_seq_chunk_parent and self._parent_or_seq_chunk_parent.has_ancestor_of_type(\n            SequenceType.CHROMOSOME\n        ):\n            parent = self._parent_or_seq_chunk_parent.first_ancestor_of_type(SequenceType.CHROMOSOME)\n            return CompoundInterval(",
        "chromosome_location memo moved to a class-wide table keyed on coordinates only (another object's parent leaks in)",
    ),
    (
        "c10_translate_memo_ignores_strict", "C10", G + "gene/cds.py",
        "    @lru_cache(maxsize=2)\n    def translate(\n        self,\n        truncate_at_in_frame_stop: Optional[bool] = False,\n        translation_table: Optional[TranslationTable] = TranslationTable.DEFAULT,\n        strict: bool = True,\n    ) -> Sequence:\n",
        "    def translate(\n        self,\n        truncate_at_in_frame_stop: Optional[bool] = False,\n        translation_table: Optional[TranslationTable] = TranslationTable.DEFAULT,\n        strict: bool = True,\n    ) -> Sequence:\n        key = (truncate_at_in_frame_stop, translation_table)\n        memo = self.__dict__.setdefault(\"_translate_memo\", {})\n        if key not in memo:\n            try:\n                memo[key] = self._translate(truncate_at_in_frame_stop, translation_table, strict)\n            except ValueError:\n                raise\n        return memo[key]\n\n    def _translate(\n        self,\n        truncate_at_in_frame_stop: Optional[bool] = False,\n        translation_table: Optional[TranslationTable] = TranslationTable.DEFAULT,\n        strict: bool = True,\n    ) -> Sequence:\n",
        "translate() memo keyed without the strict flag",
    ),
    (
        "c10_protein_memo_ignores_table", "C10", G + "gene/transcript.py",
        "        return self.cds.translate(\n            truncate_at_in_frame_stop=truncate_at_in_frame_stop, translation_table=translation_table\n        )\n",
        "        memo = self.__dict__.setdefault(\"_prot_memo\", {})\n        if truncate_at_in_frame_stop not in memo:\n            memo[truncate_at_in_frame_stop] = self.cds.translate(\n                truncate_at_in_frame_stop=truncate_at_in_frame_stop, translation_table=translation_table\n            )\n        return memo[truncate_at_in_frame_stop]\n",
        "get_protein_sequence() second-level memo keyed without the translation table",
    ),
    (
        "c10_merge_qualifiers_shallow_again", "C10", G + "gene/interval.py",
        "        merged = {key: set(vals) for key, vals in self.qualifiers.items()}\n",
        "        merged = self.qualifiers.copy()\n",
        "reverts fix 8e58e91 (F2): shallow copy of qualifiers in _merge_qualifiers",
    ),
    (
        "c10_overlapping_blocks_cached_codon_path_again", "C10", G + "gene/cds.py",
        "            and not self.chunk_relative_location.is_overlapping\n",
        "",
        "reverts fix a9883a3: cached codon locations re-used for a CDS with overlapping blocks (codon spanning the overlap in genome order)",
    ),
    (
        "c10_unique_value_or_none_memoized_again", "C10", G + "parent/parent.py",
        "def _unique_value_or_none(values: Iterable[Optional[str]]) -> Optional[str]:\n",
        "@lru_cache(maxsize=PARENT_CACHE_SIZE)\ndef _unique_value_or_none(values: Iterable[Optional[str]]) -> Optional[str]:\n",
        "reverts fix 66ba6ef: result cache keyed on values that a str-Enum and its string share",
    ),
    (
        "c10_extract_sequence_str_again", "C10", G + "gene/cds.py",
        "            return Sequence(seq, Alphabet.NT_EXTENDED, validate_alphabet=False)\n        if self.num_blocks > 1:",
        "            return seq\n        if self.num_blocks > 1:",
        "reverts fix a056a4d (F1): cached codon path returns str",
    ),
    (
        "c10_single_interval_sequence_memo_ignores_strand", "C10", G + "location/location_impl.py",
        "    def reset_strand(self, new_strand: Strand) -> \"SingleInterval\":\n        new_parent = self.parent.strip_location_info() if self.parent else None\n        return SingleInterval(self.start, self.end, new_strand, parent=new_parent)\n",
        "    def reset_strand(self, new_strand: Strand) -> \"SingleInterval\":\n        new_parent = self.parent.strip_location_info() if self.parent else None\n        new = SingleInterval(self.start, self.end, new_strand, parent=new_parent)\n        new._sequence = self._sequence\n        return new\n",
        "reset_strand carries the lazily extracted sequence over to the new location (wrong only if extract_sequence was called before)",
    ),
    (
        "c08_digest_str_of_set", "C08", G + "util/hashing.py",
        "            elif isinstance(member, set):\n                yield str(_order_set(member))\n",
        "            elif isinstance(member, set):\n                yield str(member)\n",
        "digest_object hashes str(set): identifier depends on the interpreter's hash seed",
    ),
    (
        "c08_export_qualifiers_unsorted", "C08", G + "gene/interval.py",
        "            return {key: sorted(vals) for key, vals in self.qualifiers.items()}\n",
        "            return {key: list(vals) for key, vals in self.qualifiers.items()}\n",
        "to_dict emits qualifier values in set order (differs between processes)",
    ),
    (
        "c08_guid_ignores_strand", "C08", G + "gene/feature.py",
        "                self._genomic_starts,\n                self._genomic_ends,\n                self.strand,\n                self.qualifiers,\n                self.sequence_name,\n                self.feature_types,",
        "                self._genomic_starts,\n                self._genomic_ends,\n                self.qualifiers,\n                self.sequence_name,\n                self.feature_types,",
        "FeatureInterval identifier no longer depends on strand",
    ),
    (
        "c08_transcript_from_dict_drops_product", "C08", G + "gene/transcript.py",
        "            protein_id=vals[\"protein_id\"],\n            product=vals[\"product\"],\n            parent_or_seq_chunk_parent=parent_or_seq_chunk_parent,\n        )\n\n    @staticmethod\n    def from_location(",
        "            protein_id=vals[\"protein_id\"],\n            parent_or_seq_chunk_parent=parent_or_seq_chunk_parent,\n        )\n\n    @staticmethod\n    def from_location(",
        "TranscriptInterval.from_dict drops the product field",
    ),
    (
        "c08_model_drops_is_primary", "C08", G + "io/models.py",
        "            is_primary_tx=self.is_primary_tx,\n            transcript_id=self.transcript_id,",
        "            transcript_id=self.transcript_id,",
        "TranscriptIntervalModel.to_transcript_interval drops is_primary_tx (schema path only)",
    ),
    (
        "c08_variant_from_dict_drops_parent_again", "C08", G + "gene/variants.py",
        "            vals[\"qualifiers\"],\n            parent_or_seq_chunk_parent,\n        )",
        "            vals[\"qualifiers\"],\n        )",
        "reverts fix fa51ec4: VariantInterval.from_dict ignores its parent",
    ),
    (
        "c17_minus_interval_order", "C17", G + "io/ncbi/tbl_writer.py",
        "            s = [b[::-1] for b in s][::-1]\n",
        "            s = [b[::-1] for b in s]\n",
        "minus-strand blocks flipped but not reordered 5'->3'",
    ),
    (
        "c17_codon_start_off_by_one", "C17", G + "io/ncbi/tbl_writer.py",
        "        codon_start = next(transcript.cds._frame_iter()).value + 1\n",
        "        codon_start = next(transcript.cds._frame_iter()).to_phase().value + 1\n",
        "codon_start computed from phase instead of frame (wrong for frames 1 and 2 only)",
    ),
    (
        "c17_reseed_removed", "C17", G + "io/ncbi/tbl_writer.py",
        "    if random_seed is not None:\n        random.seed(random_seed)\n",
        "    if random_seed is not None and random_seed > 1:\n        random.seed(random_seed)\n",
        "seeds 0 and 1 silently ignored",
    ),
    (
        "c17_swallow_oserror", "C17", G + "io/ncbi/tbl_writer.py",
        "                print(str(obj), file=tbl_file_handle)\n",
        "                try:\n                    print(str(obj), file=tbl_file_handle)\n                except OSError:\n                    warnings.warn(\"could not write feature\")\n",
        "writer swallows OSError from the handle and carries on",
    ),
    (
        "c17_end_complete_ignores_frame", "C17", G + "io/ncbi/tbl_writer.py",
        "        end_is_incomplete = len(transcript.cds) % 3 != (codon_start - 1) or not transcript.cds.has_valid_stop\n",
        "        end_is_incomplete = not transcript.cds.has_valid_stop\n",
        "3' completeness no longer requires the CDS to end in frame",
    ),
    (
        "c17_start_table_ignored", "C17", G + "io/ncbi/tbl_writer.py",
        "        start_is_incomplete = not transcript.cds.has_start_codon_in_specific_translation_table(translation_table)\n",
        "        start_is_incomplete = not transcript.cds.has_canonical_start_codon\n",
        "5' completeness ignores the chosen translation table",
    ),
    (
        "c17_set_order_again", "C17", G + "io/ncbi/tbl_writer.py",
        "            product = sorted(transcript.qualifiers[\"product\"])[0]\n            # NCBI",
        "            product = list(transcript.qualifiers[\"product\"])[0]\n            # NCBI",
        "reverts fix c606951 at one site: product taken in set order",
    ),
    (
        "c11_exon_start_plus_one_dropped", "C11", G + "gene/transcript.py",
        "                BioCantorFeatureTypes.EXON,\n                start + 1,\n",
        "                BioCantorFeatureTypes.EXON,\n                start + 1 if i == 1 else start,\n",
        "exon rows after the first are 0-based",
    ),
    (
        "c11_cds_phase_from_wrong_block", "C11", G + "gene/cds.py",
        "        for i, block, frame in zip(count(1), cds_blocks, frames):\n",
        "        for i, block, frame in zip(count(1), cds_blocks, frames if self.strand == Strand.PLUS else frames[::-1]):\n",
        "minus-strand CDS rows get the phases in reverse order",
    ),
    (
        "c11_percent_not_escaped", "C11", G + "io/gff3/constants.py",
        "ENCODING_MAP = {\"\\t\": \"%09\", \";\": \"%3B\", \"=\": \"%3D\", \"\\n\": \"%0A\", \"\\r\": \"%0D\", \">\": \"%3E\", \" \": \"%20\", \"%\": \"%25\"}",
        "ENCODING_MAP = {\"\\t\": \"%09\", \";\": \"%3B\", \"=\": \"%3D\", \"\\n\": \"%0A\", \"\\r\": \"%0D\", \">\": \"%3E\", \" \": \"%20\"}",
        "'%' removed from the escape map of qualifier values (still escaped in ID/Name)",
    ),
    (
        "c11_writer_swallows_oserror", "C11", G + "io/gff3/writer.py",
        "            print(item, file=gff3_handle)\n",
        "            try:\n                print(item, file=gff3_handle)\n            except OSError:\n                break\n",
        "writer stops silently on a write error",
    ),
    (
        "c11_values_in_set_order", "C11", G + "io/gff3/rows.py",
        "            escaped_val = ATTRIBUTE_SEPARATOR.join(sorted(escaped_vals))\n",
        "            escaped_val = ATTRIBUTE_SEPARATOR.join(escaped_vals)\n",
        "multi-valued attributes written in set iteration order (differs between hash seeds)",
    ),
    (
        "c11_parser_cds_sorted_by_end_only", "C11", G + "io/gff3/parser.py",
        "        cds = sorted(cds, key=lambda c: (c.start, c.end))\n        cds_starts = [x.start - 1 for x in cds]\n        cds_ends = [x.end for x in cds]\n",
        "        cds = sorted(cds, key=lambda c: (c.start, c.end))\n        cds_starts = [x.start - 1 for x in cds]\n        cds_ends = [x.end for x in cds]\n        if strand == Strand.MINUS and len(cds) > 2:\n            cds = cds[::-1]\n",
        "parser pairs minus-strand CDS blocks with frames in the wrong order when there are 3+ blocks",
    ),
    (
        "c11_parser_unquote_reverted", "C11", G + "io/gff3/parser.py",
        "        unquote(key): sorted(vals) for key, vals in qualifiers.items()",
        "        key: sorted(vals) for key, vals in qualifiers.items()",
        "reverts fix 8676706: qualifier keys come back percent-encoded",
    ),
    (
        "c11_gene_name_from_locus_tag", "C11", G + "gene/gene.py",
        "            name=self.gene_symbol,\n            parent=None,\n",
        "            name=self.gene_symbol or self.locus_tag,\n            parent=None,\n",
        "gene rows get Name=<locus tag> when the gene has no symbol",
    ),
    (
        "c12_writer_part_order_reverted", "C12", G + "io/genbank/writer.py",
        "    if strand == Strand.MINUS and isinstance(location, CompoundLocation):\n        return CompoundLocation(location.parts[::-1], location.operator)\n    return location\n",
        "    return location\n",
        "reverts fix 86aec93: minus-strand multi-block parts in non-INSDC order",
    ),
    (
        "c12_codon_start_from_last_block", "C12", G + "io/genbank/writer.py",
        "    start_frame = next(transcript.cds._frame_iter())\n",
        "    start_frame = transcript.cds.chunk_relative_frames[0]\n",
        "codon_start taken from the lowest-coordinate block (wrong on minus-strand multi-block CDS)",
    ),
    (
        "c12_gene_strand_dropped", "C12", G + "io/genbank/writer.py",
        "    feature = SeqFeature(location, type=feature_type, strand=strand.value)\n    feature.qualifiers = qualifiers\n",
        "    feature = SeqFeature(location, type=feature_type)\n    feature.qualifiers = qualifiers\n",
        "gene records always written on the plus strand",
    ),
    (
        "c12_translation_table_swapped", "C12", G + "io/genbank/writer.py",
        "        TranslationTable.PROKARYOTE if genbank_type == GenbankFlavor.PROKARYOTIC else TranslationTable.DEFAULT\n",
        "        TranslationTable.DEFAULT if genbank_type == GenbankFlavor.PROKARYOTIC else TranslationTable.PROKARYOTE\n",
        "translation tables of the two flavours swapped (alternative start codons translated differently)",
    ),
    (
        "c12_parser_cds_frames_plus_only", "C12", G + "io/genbank/parser.py",
        "        frames = CDSInterval.construct_frames_from_location(cds_interval, frame)\n",
        "        frames = CDSInterval.construct_frames_from_location(cds_interval.reset_strand(Strand.PLUS), frame)\n",
        "parser derives frames as if every CDS were on the plus strand",
    ),
    (
        "c12_locus_tag_parser_drops_protein_id", "C12", G + "io/genbank/parser.py",
        "        for locus_tag, gene_features in itertools.groupby(\n            features,\n            key=lambda f: f.qualifiers[KnownQualifiers.LOCUS_TAG.value][0],\n        ):\n            gene_feature = None\n            transcript_features = []\n            cds_features = []\n            for feature in gene_features:\n",
        "        for locus_tag, gene_features in itertools.groupby(\n            features,\n            key=lambda f: f.qualifiers[KnownQualifiers.LOCUS_TAG.value][0],\n        ):\n            gene_feature = None\n            transcript_features = []\n            cds_features = []\n            for feature in gene_features:\n                feature.qualifiers.pop(\"protein_id\", None)\n",
        "locus-tag grouping loses protein ids (modes disagree)",
    ),
    (
        "c12_writer_swallows_oserror", "C12", G + "io/genbank/writer.py",
        "    SeqIO.write(seqrecords, genbank_file_handle_or_path, format=\"genbank\")\n",
        "    try:\n        SeqIO.write(seqrecords, genbank_file_handle_or_path, format=\"genbank\")\n    except OSError:\n        warnings.warn(\"GenBank export incomplete\")\n",
        "writer swallows a write error",
    ),
    (
        "c12_export_cursor_shared_between_parsers", "C12", G + "io/genbank/parser.py",
        "        for i, seqrecord in enumerate(self.seq_records):\n            genes = [GeneFeature.to_gene_model(x) for x in sorted(self.genes[i], key=lambda x: x.start)]\n",
        "        BaseGenBankParser._cursor = 0\n        for seqrecord in self.seq_records:\n            i = BaseGenBankParser._cursor\n            BaseGenBankParser._cursor += 1\n            genes = [GeneFeature.to_gene_model(x) for x in sorted(self.genes[i], key=lambda x: x.start)]\n",
        "record cursor of the lazy export loop lives on the class: two parsers stepped alternately read each other's position (sequential use is fine)",
    ),
    (
        "c12_parser_swallows_read_error", "C12", G + "io/genbank/parser.py",
        "    seq_records = list(SeqIO.parse(genbank_handle_or_path, format=\"genbank\"))\n",
        "    seq_records = []\n    try:\n        for rec in SeqIO.parse(genbank_handle_or_path, format=\"genbank\"):\n            seq_records.append(rec)\n    except OSError:\n        pass\n",
        "a read error of the handle ends the parse silently (truncated result returned as if complete)",
    ),
    (
        "c11_parse_chroms_shared_between_parsers", "C11", G + "io/gff3/parser.py",
        "    non_gene_feature_types = _find_non_gene_feature_types(db)\n\n    for chrom in chroms:\n",
        "    non_gene_feature_types = _find_non_gene_feature_types(db)\n    _PENDING.clear()\n    _PENDING.extend(chroms)\n\n    while _PENDING:\n        chrom = _PENDING.pop(0)\n",
        "work list of the lazy GFF3 parse loop is a module-level list: two parsers stepped alternately steal each other's sequences",
    ),
    (
        "c11_fasta_reader_swallows_read_error", "C11", G + "io/gff3/parser.py",
        "    data = StringIO(gff3_with_fasta_handle.read())\n",
        "    try:\n        data = StringIO(gff3_with_fasta_handle.read())\n    except OSError:\n        data = StringIO(\"\")\n",
        "read error after the FASTA header is swallowed: an empty record list is returned as if complete",
    ),
    (
        "c11_fasta_record_name_reverted", "C11", G + "io/gff3/writer.py",
        "            fasta_lines[0] = f\">{collection.sequence_name}\"\n",
        "",
        "reverts fix dd01f15: FASTA record of a chunk-relative export named after the chunk sequence's own id",
    ),
    (
        "c10_scan_blocks_cursor_on_instance", "C10", G + "location/location_impl.py",
        "        if self.strand == Strand.PLUS:\n            yield from self.blocks\n        if self.strand == Strand.MINUS:\n            yield from reversed(self.blocks)\n",
        "        blocks = self.blocks if self.strand == Strand.PLUS else list(reversed(self.blocks))\n        key = hash(self)\n        _SCAN_POS[key] = 0\n        while _SCAN_POS[key] < len(blocks):\n            yield blocks[_SCAN_POS[key]]\n            _SCAN_POS[key] += 1\n",
        "scan_blocks keeps its position in a module-level table keyed by the location's hash: a second scan started while the first is half consumed makes the first stop early (each scan alone is fine)",
    ),
    (
        "c10_gene_iter_children_pops_worklist", "C10", G + "gene/gene.py",
        "    def iter_children(self) -> Iterable[TranscriptInterval]:\n        yield from self.transcripts\n",
        "    def iter_children(self) -> Iterable[TranscriptInterval]:\n        self._pending = list(self.transcripts)\n        while self._pending:\n            yield self._pending.pop(0)\n",
        "GeneInterval.iter_children drains a work list kept on the instance: two half-consumed iterations steal from each other",
    ),
    (
        "c10_merge_qualifiers_grows_callers_parent_sets", "C10", G + "gene/interval.py",
        "                if key not in merged:\n                    merged[key] = set()\n                merged[key].update(vals)\n",
        "                if key not in merged:\n                    merged[key] = vals\n                else:\n                    merged[key].update(vals)\n",
        "merged qualifiers alias the caller's parent-qualifier sets for keys the interval lacks: later additions (own identifiers) land in the caller's dict",
    ),
    (
        "c08_cds_to_dict_frames_from_chunk_view", "C08", G + "gene/cds.py",
        "            cds_frames = [f.name for f in self.frames]\n        else:",
        "            cds_frames = [f.name for f in (self.chunk_relative_frames if len(self.chunk_relative_frames) == len(self.frames) else self.frames)]\n        else:",
        "stand-alone CDSInterval.to_dict exports the chunk-relative frames when the block count matches (differs when the chunk cuts a block)",
    ),
    (
        "c10_liftover_memo_keyed_by_id", "C10", G + "location/location.py",
        "        try:\n            self.first_ancestor_of_type(sequence_type)\n        except NoSuchAncestorException:\n            raise NoSuchAncestorException(\"Location has no ancestor of type {}\".format(sequence_type))\n        if self.parent_type == sequence_type:\n            return self\n        lifted_to_grandparent = self.parent.lift_child_location_to_parent()\n        return lifted_to_grandparent.lift_over_to_first_ancestor_of_type(sequence_type)\n",
        "        key = (id(self), str(sequence_type))\n        if key in _LIFT_MEMO:\n            return _LIFT_MEMO[key]\n        try:\n            self.first_ancestor_of_type(sequence_type)\n        except NoSuchAncestorException:\n            raise NoSuchAncestorException(\"Location has no ancestor of type {}\".format(sequence_type))\n        if self.parent_type == sequence_type:\n            return self\n        lifted_to_grandparent = self.parent.lift_child_location_to_parent()\n        res = lifted_to_grandparent.lift_over_to_first_ancestor_of_type(sequence_type)\n        if len(_LIFT_MEMO) < 4096:\n            _LIFT_MEMO[key] = res\n        return res\n",
        "lift-over memo keyed by id(location): a temporary location that died lends its id (and its answer) to a later one",
    ),
]

# helper text appended for the mutant above (kept separate to keep the table readable)
EXTRA = {
    "c10_scan_blocks_cursor_on_instance": (G + "location/location_impl.py", "class CompoundInterval(", "_SCAN_POS = {}\n\n\nclass CompoundInterval("),
    "c11_parse_chroms_shared_between_parsers": (G + "io/gff3/parser.py", "def default_parse_func(", "_PENDING = []\n\n\ndef default_parse_func("),
    "c10_liftover_memo_keyed_by_id": (G + "location/location.py", "class Location(AbstractLocation, ABC):\n", "_LIFT_MEMO = {}\n\n\nclass Location(AbstractLocation, ABC):\n"),
}
# planted changes whose trigger is narrow enough that the default quick budget (1000 histories) is not a reliable catch:
# run the same check with more histories (thorough tier finds them; said so in DESIGN.md 9.5)
# not in the table: the revert of fix b09015f (CompoundInterval.end) - its history-dependent symptom (reverse() twice on a
# nested-block, non-plus-strand location) shows in about 1 of 3 000 generated histories even after nested blocks and echo
# steps were added to the generator; it is thorough-tier material (found there: seed 1202, run 7395 of 36 000).
# planted changes whose symptom depends on object addresses (id() reuse): the batch observes them, the replay in a fresh
# interpreter may not reproduce them; the self-test accepts "observed, not promoted" for these only
ADDRESS_DEPENDENT = {"c10_liftover_memo_keyed_by_id"}
EXPECTED_MISS = {}  # filled from seeded/<id>/meta.json "expected_miss"
RUNS = {"c10_single_interval_sequence_memo_ignores_strand": 2500, "c10_gene_iter_children_pops_worklist": 2500}


# Behaviour-preserving refactors: the checks must stay SILENT on these (``./vcheck selftest mutants --benign``).
# (name, property, [(file, old, new), ...], what)
BENIGN = [
    (
        "benign_genbank_parser_slurps_handle", "C12",
        [(G + "io/genbank/parser.py",
          "    seq_records = list(SeqIO.parse(genbank_handle_or_path, format=\"genbank\"))\n",
          "    if hasattr(genbank_handle_or_path, \"read\"):\n        from io import StringIO as _StringIO\n\n        genbank_handle_or_path = _StringIO(genbank_handle_or_path.read())\n    seq_records = list(SeqIO.parse(genbank_handle_or_path, format=\"genbank\"))\n")],
        "GenBank parser reads the whole handle with one read() before parsing (other read pattern, same result)",
    ),
    (
        "benign_gene_iter_children_iter_of_copy", "C10",
        [(G + "gene/gene.py",
          "    def iter_children(self) -> Iterable[TranscriptInterval]:\n        yield from self.transcripts\n",
          "    def iter_children(self) -> Iterable[TranscriptInterval]:\n        return iter(list(self.transcripts))\n")],
        "GeneInterval.iter_children returns an iterator over a copy instead of being a generator",
    ),
    (
        "benign_gff3_parse_func_eager", "C11",
        [(G + "io/gff3/parser.py",
          "    for annot in parse_func(db, chroms):\n        yield ParsedAnnotationRecord(annot)\n",
          "    parsed = [ParsedAnnotationRecord(annot) for annot in parse_func(db, chroms)]\n    yield from parsed\n")],
        "parse_standard_gff3 converts every sequence before yielding the first record (eager instead of lazy)",
    ),
    (
        "benign_fasta_extractor_reads_lines", "C11",
        [(G + "io/gff3/parser.py",
          "    data = StringIO(gff3_with_fasta_handle.read())\n",
          "    data = StringIO(\"\".join(row for row in gff3_with_fasta_handle))\n")],
        "FASTA extractor collects the remaining lines instead of calling read()",
    ),
    (
        "benign_parent_ancestor_memo_keyed_correctly", "C10",
        [
            ("inscripta/biocantor/__init__.py",
             '    __slots__ = ["parent", "id", "sequence_type", "_strand", "location", "sequence", "_strand_property"]\n',
             '    __slots__ = ["parent", "id", "sequence_type", "_strand", "location", "sequence", "_strand_property", "_anc_memo"]\n'),
            (G + "parent/parent.py",
             "        if include_self and self.sequence_type == sequence_type:\n            return True\n        if self.parent:\n            return self.parent.has_ancestor_of_type(sequence_type, include_self=True)\n        return False\n",
             "        try:\n            memo = self._anc_memo\n        except AttributeError:\n            memo = self._anc_memo = {}\n        key = (sequence_type, bool(include_self))\n        if key not in memo:\n            if include_self and self.sequence_type == sequence_type:\n                memo[key] = True\n            elif self.parent:\n                memo[key] = self.parent.has_ancestor_of_type(sequence_type, include_self=True)\n            else:\n                memo[key] = False\n        return memo[key]\n"),
        ],
        "a CORRECT per-instance memo of has_ancestor_of_type in a new private slot",
    ),
    (
        "benign_merge_qualifiers_deepcopy", "C10",
        [(G + "gene/interval.py",
          "        merged = {key: set(vals) for key, vals in self.qualifiers.items()}\n",
          "        import copy as _copy\n\n        merged = _copy.deepcopy(self.qualifiers)\n")],
        "_merge_qualifiers copies with copy.deepcopy",
    ),
    (
        "benign_cds_num_codons_private_memo", "C10",
        [(G + "gene/cds.py",
          "        return len(self.chromosome_codon_locations)\n",
          "        if getattr(self, \"_num_codons_memo\", None) is None:\n            self._num_codons_memo = len(self.chromosome_codon_locations)\n        return self._num_codons_memo\n")],
        "a correct private memo attribute on CDSInterval",
    ),
    (
        "benign_gff3_writer_batches_lines", "C11",
        [(G + "io/gff3/writer.py",
          "    for collection in collections:\n        for item in collection.to_gff(\n            chromosome_relative_coordinates=chromosome_relative_coordinates,\n            raise_on_reserved_attributes=raise_on_reserved_attributes,\n        ):\n            print(item, file=gff3_handle)\n",
          "    for collection in collections:\n        rows = [\n            str(item)\n            for item in collection.to_gff(\n                chromosome_relative_coordinates=chromosome_relative_coordinates,\n                raise_on_reserved_attributes=raise_on_reserved_attributes,\n            )\n        ]\n        if rows:\n            gff3_handle.write(\"\\n\".join(rows) + \"\\n\")\n")],
        "GFF3 writer renders a collection's rows first and writes them with one write() (same bytes, other write pattern)",
    ),
    (
        "benign_tbl_codon_start_equivalent", "C17",
        [(G + "io/ncbi/tbl_writer.py",
          "        codon_start = next(transcript.cds._frame_iter()).value + 1\n",
          "        frames_5p_to_3p = list(transcript.cds._frame_iter())\n        codon_start = int(frames_5p_to_3p[0].value) + 1\n")],
        "codon_start computed by an equivalent expression",
    ),
    (
        "benign_digest_sorted_generator", "C08",
        [(G + "util/hashing.py",
          "    return sorted(str(x) for x in set_of_hashables)\n",
          "    as_str = [str(x) for x in set_of_hashables]\n    as_str.sort()\n    return as_str\n")],
        "_order_set sorts a list in place instead of sorted(generator)",
    ),
    (
        "benign_genbank_writer_qualifier_order_sorted", "C12",
        [(G + "io/genbank/writer.py",
          "    qualifiers = {key: list(vals) for key, vals in gene_or_feature.export_qualifiers().items()}\n",
          "    qualifiers = {key: sorted(vals) for key, vals in gene_or_feature.export_qualifiers().items()}\n")],
        "GenBank gene qualifiers written in sorted instead of set order (text changes, content does not)",
    ),
]


def scratch_copy():
    base = tempfile.mkdtemp(prefix="bcsim-mut-", dir="/dev/shm")
    shutil.copytree("/repo/inscripta", os.path.join(base, "inscripta"))
    return base


def apply_edit(base, rel, old, new):
    p = os.path.join(base, rel)
    s = open(p).read()
    if s.count(old) != 1:
        raise RuntimeError(f"mutant anchor matches {s.count(old)} times in {rel}")
    open(p, "w").write(s.replace(old, new))


def run_check(base, prop, runs=None, tier="quick", timeout=3600):
    env = dict(os.environ)
    env["BCSIM_REPO"] = base
    env["BCSIM_OUT"] = os.path.join(base, "out")
    env.pop("BCSIM_REEXEC", None)
    if runs:
        env["VERIF_RUNS"] = str(runs)
    t0 = time.time()
    p = subprocess.run([os.path.join(VERIF, "vcheck"), "run", prop, tier], cwd=VERIF, env=env, capture_output=True, text=True, timeout=timeout)
    return p.returncode, p.stdout + p.stderr, time.time() - t0


def main(argv):
    only = None
    runs = None
    keep = False
    seeded = False
    benign = False
    benign_seeded = False
    props = []
    it = iter(argv)
    for a in it:
        if a == "--only":
            only = next(it)
        elif a == "--runs":
            runs = int(next(it))
        elif a == "--keep":
            keep = True
        elif a == "--seeded":
            seeded = True
        elif a == "--benign":
            benign = True
        elif a == "--benign-seeded":
            benign_seeded = True
        else:
            props.append(a)
    if benign_seeded:
        # behaviour-preserving refactors written by independent sub-agents (seeded_benign/<name>/patch.diff): EVERY check
        # must stay silent on each of them
        failed = []
        sd = os.path.join(VERIF, "seeded_benign")
        for name in sorted(os.listdir(sd)) if os.path.isdir(sd) else []:
            patch = os.path.join(sd, name, "patch.diff")
            if not os.path.exists(patch) or (only and only not in name):
                continue
            for prop in (props or ["C10", "C08", "C17", "C11", "C12"]):
                base = scratch_copy()
                quiet = True
                try:
                    p = subprocess.run(["git", "apply", "--unsafe-paths", "--include=inscripta/*", "--directory", base, patch], capture_output=True, text=True, cwd="/")
                    if p.returncode != 0:
                        print(f"[benign-seeded] {name}: patch does not apply: {p.stderr[-300:]}")
                        failed.append(name)
                        break
                    rc, out, dt = run_check(base, prop, runs=runs)
                    quiet = rc == 0 and not any(l.startswith(("VIOLATION", "HARNESS-ERROR")) for l in out.splitlines())
                    print(f"[benign-seeded] {'QUIET' if quiet else 'ALARM':6s} {prop} {name} ({dt:.0f}s)", flush=True)
                    if not quiet:
                        failed.append(f"{name}:{prop}")
                        print("\n".join("       | " + l[:300] for l in out.splitlines() if not l.startswith("KNOWN-FINDING"))[-3000:])
                finally:
                    if keep and not quiet:
                        print("kept", base)
                    else:
                        shutil.rmtree(base, ignore_errors=True)
        print(f"[benign-seeded] false alarms: {failed}")
        return 1 if failed else 0
    if benign:
        failed = []
        for name, prop, edits, what in BENIGN:
            if (props and prop not in props) or (only and only not in name):
                continue
            base = scratch_copy()
            try:
                for rel, old_, new_ in edits:
                    apply_edit(base, rel, old_, new_)
                rc, out, dt = run_check(base, prop, runs=runs)
                quiet = rc == 0 and not any(l.startswith(("VIOLATION", "HARNESS-ERROR")) for l in out.splitlines())
                print(f"[benign] {'QUIET' if quiet else 'ALARM':6s} {prop} {name} ({dt:.0f}s) {what}")
                if not quiet:
                    failed.append(name)
                    print("\n".join("       | " + l for l in out.splitlines()[-8:]))
            finally:
                shutil.rmtree(base, ignore_errors=True)
        print(f"[benign] false alarms: {failed}")
        return 1 if failed else 0
    todo = []
    if not seeded:
        for m in MUTANTS:
            if (not props or m[1] in props) and (only is None or only in m[0]):
                todo.append(("planted", m[0], m[1], m))
    else:
        sd = os.path.join(VERIF, "seeded")
        for name in sorted(os.listdir(sd)) if os.path.isdir(sd) else []:
            meta_p = os.path.join(sd, name, "meta.json")
            if not os.path.exists(meta_p):
                continue
            meta = json.load(open(meta_p))
            if (not props or meta["property"] in props) and (only is None or only in name):
                todo.append(("seeded", name, meta["property"], os.path.join(sd, name, "patch.diff")))
                if meta.get("runs"):
                    RUNS.setdefault(name, int(meta["runs"]))
                if meta.get("expected_miss"):
                    EXPECTED_MISS[name] = meta["expected_miss"]
    missed = []
    known_miss = []
    for kind, name, prop, payload in todo:
        base = scratch_copy()
        try:
            if kind == "planted":
                _, _, rel, old, new, what = payload
                apply_edit(base, rel, old, new)
                if name in EXTRA:
                    apply_edit(base, *EXTRA[name])
            else:
                p = subprocess.run(["git", "apply", "--unsafe-paths", "--directory", base, payload], capture_output=True, text=True, cwd="/")
                if p.returncode != 0:
                    p = subprocess.run(["patch", "-p1", "-d", base, "-i", payload], capture_output=True, text=True)
                    if p.returncode != 0:
                        print(f"[mutants] {name}: patch does not apply: {p.stdout[-300:]} {p.stderr[-300:]}")
                        missed.append(name)
                        continue
                what = "seeded change"
            rc, out, dt = run_check(base, prop, runs=runs or RUNS.get(name))
            viol = [l for l in out.splitlines() if l.startswith("VIOLATION property=")]
            herr = [l for l in out.splitlines() if l.startswith("HARNESS-ERROR")]
            status = "CAUGHT" if rc == 1 and viol else ("HARNESS-ERROR" if rc == 2 or herr else "MISSED")
            unrep = [l for l in out.splitlines() if l.startswith("UNREPRODUCED")]
            if status == "HARNESS-ERROR" and name in ADDRESS_DEPENDENT and unrep and not any("failed inside the harness" in l for l in herr):
                # observed in the batch (world and pristine answers differed) but dependent on object addresses, which a
                # fresh interpreter does not share with the batch's forked children: correctly not promoted to a VIOLATION
                status = "OBSERVED"
            print(f"[mutants] {status:13s} {prop} {name} ({dt:.0f}s) {what if kind == 'planted' else ''}")
            for l in viol[:2]:
                print("      ", l)
            if status == "MISSED" and name in EXPECTED_MISS:
                print(f"       | recorded miss: {EXPECTED_MISS[name]}")
                known_miss.append(name)
                continue
            if status not in ("CAUGHT", "OBSERVED"):
                missed.append(name)
                print("\n".join("       | " + l for l in out.splitlines()[-8:]))
        finally:
            if keep:
                print("kept", base)
            else:
                shutil.rmtree(base, ignore_errors=True)
    print(f"[mutants] {len(todo) - len(missed) - len(known_miss)}/{len(todo)} caught; missed: {missed}; recorded misses (see meta.json / DESIGN.md 9.5): {known_miss}")
    return 1 if missed else 0


if __name__ == "__main__":
    sys.exit(main(sys.argv[1:]))
