"""Cooperative stepping of the library's lazy readers (generators) under a seeded scheduler.

The parsers of BioCantor are generator functions: nothing is read until the consumer asks for the first record and
each ``next()`` reads on.  Several consumers in one process therefore *do* interleave at record granularity.  The
scheduler here owns that interleaving: tasks are (label, maker) pairs, the maker is called at the task's first step,
every step is one ``next()``; which task steps next, and which task is abandoned (``close()``, i.e. a consumer that
walks away in the middle of a file) after how many steps, is drawn from the given PRNG and recorded as the schedule.
"""


def run_tasks(makers, rng, abandon=None, max_steps=10000):
    """makers: [(label, callable returning an iterator)].  abandon: {label: steps after which the task is closed}.
    Returns ({label: {"items": [...], "error": str|None, "abandoned": bool}}, schedule)."""
    abandon = abandon or {}
    state = {label: {"it": None, "items": [], "error": None, "abandoned": False, "done": False, "mk": mk} for label, mk in makers}
    order = [label for label, _ in makers]
    schedule = []
    steps = 0
    while steps < max_steps:
        runnable = [lb for lb in order if not state[lb]["done"]]
        if not runnable:
            break
        lb = runnable[rng.randrange(len(runnable))]
        st = state[lb]
        steps += 1
        schedule.append(lb)
        try:
            if st["it"] is None:
                st["it"] = iter(st["mk"]())
            if lb in abandon and len(st["items"]) >= abandon[lb]:
                close = getattr(st["it"], "close", None)
                if close:
                    close()
                st["abandoned"] = True
                st["done"] = True
                continue
            st["items"].append(next(st["it"]))
        except StopIteration:
            st["done"] = True
        except Exception as e:  # the task failed; the others go on
            st["error"] = type(e).__name__ + ": " + str(e)[:120]
            st["done"] = True
    return {lb: {k: v for k, v in st.items() if k in ("items", "error", "abandoned")} for lb, st in state.items()}, schedule
