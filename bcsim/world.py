"""Plan interpreter: executes a history in a forked *world* child, and single expressions in forked *pristine*
children of the untouched post-import image.  All library calls of the C10 check happen here (in children only)."""
import faulthandler
import gc
import hashlib
import json
import os
import select
import signal
import sys
import time
import uuid

from bcsim import compat

compat.install()

from bcsim import build, ops  # noqa: E402
from bcsim.canon import canon, dumps, cjson, WIRE_PREFIX  # noqa: E402

CHILD_TIMEOUT_S = 120


class HarnessError(Exception):
    pass


# ---------------------------------------------------------------------------------------------------------------
# fork helper


def run_in_fork(fn, *args, timeout=CHILD_TIMEOUT_S):
    """Run fn(*args) in a forked child; returns its JSON-able result.  Raises HarnessError on crash/timeout."""
    r, w = os.pipe()
    sys.stdout.flush()
    sys.stderr.flush()
    pid = os.fork()
    if pid == 0:
        status = 0
        try:
            os.close(r)
            faulthandler.dump_traceback_later(timeout, exit=True)
            try:
                res = {"ok": fn(*args)}
            except BaseException as e:  # harness-level failure inside the child
                import traceback

                res = {"err": f"{type(e).__name__}: {e}", "tb": traceback.format_exc()[-3000:]}
            data = json.dumps(res).encode()
            with os.fdopen(w, "wb") as f:
                f.write(data)
        except BaseException:
            status = 3
        finally:
            os._exit(status)
    os.close(w)
    chunks = []
    deadline = time.monotonic() + timeout + 5
    try:
        while True:
            left = deadline - time.monotonic()
            if left <= 0:
                os.kill(pid, signal.SIGKILL)
                os.waitpid(pid, 0)
                raise HarnessError("child timed out")
            rl, _, _ = select.select([r], [], [], min(left, 5.0))
            if not rl:
                continue
            b = os.read(r, 1 << 20)
            if not b:
                break
            chunks.append(b)
    finally:
        os.close(r)
    _, st = os.waitpid(pid, 0)
    data = b"".join(chunks)
    if not data:
        raise HarnessError(f"child died without output (status {st})")
    res = json.loads(data)
    if "err" in res:
        raise HarnessError("child failed: " + res["err"] + "\n" + res.get("tb", ""))
    return res["ok"]


# ---------------------------------------------------------------------------------------------------------------
# interpreter


def _enum(t, n):
    if t == "Strand":
        from inscripta.biocantor.location.strand import Strand

        return Strand[n]
    if t == "TranslationTable":
        from inscripta.biocantor.gene.codon import TranslationTable

        return TranslationTable[n]
    if t == "CDSFrame":
        from inscripta.biocantor.gene.cds_frame import CDSFrame

        return CDSFrame[n]
    if t == "DistanceType":
        from inscripta.biocantor import DistanceType

        return DistanceType[n]
    raise ValueError(t)


class Interp:
    def __init__(self, plan):
        self.plan = plan
        self.objects = plan["objects"]
        self.live = {}
        self.inputs = {}
        self.argmut = None
        self.cursors = {}  # cursor id -> {"it": iterator, "pos": items taken so far, "done": bool}

    # -- construction
    def ensure(self, name, table=None):
        table = self.live if table is None else table
        if name in table:
            return table[name]
        r = self.objects[name]
        if "spec" in r:
            obj, inputs = build.build_root(r["kind"], r["spec"])
            if table is self.live:
                self.inputs[name] = inputs
        else:
            src = self.ensure(r["from"], table)
            args = [self.resolve(a, table) for a in r["args"]]
            obj = ops.invoke(self.objects[r["from"]]["kind"], r["op"], src, args)
        table[name] = obj
        return obj

    def fresh(self, name):
        """An independent, freshly built twin of a live object (its whole recipe chain rebuilt)."""
        return self.ensure(name, table={})

    def resolve(self, a, table=None):
        if isinstance(a, list):
            return [self.resolve(x, table) for x in a]
        if not isinstance(a, dict):
            return a
        k = a.get("$")
        if k is None:
            return {kk: self.resolve(v, table) for kk, v in a.items()}
        if k == "enum":
            return _enum(a["t"], a["n"])
        if k == "ref":
            return self.ensure(a["n"], table)
        if k == "twin":
            return self.fresh(a["n"])
        if k == "seqtype":
            return build.seqtype(a["v"])
        if k == "loc":
            return build.build_location(a["spec"])
        if k == "parentobj":
            spec = a["spec"]
            if "levels" in spec:
                return build.build_hierarchy(spec, upto=a.get("upto"))
            return build.build_parent(spec)
        if k == "guids":
            obj = self.ensure(a["n"], table)
            kids = list(obj.iter_children())
            if a["level"] == 2:
                kids = [g for c in kids for g in c.iter_children()]
            out = [kids[i % len(kids)].guid for i in a["idx"]] if kids else []
            for b in range(a.get("bogus", 0)):
                out.append(uuid.UUID(int=b + 1))
            return out
        if k == "dictsets":
            return {kk: set(v) for kk, v in a["v"].items()} if a["v"] is not None else None
        if k == "rgb":
            from inscripta.biocantor.io.bed import RGB

            return RGB(*a["v"])
        if k == "uuid":
            return uuid.UUID(a["v"])
        raise ValueError(a)

    # -- evaluation
    def operands(self, step):
        names = [step["obj"]] + [n for n in _refs(step.get("args", [])) if n in self.live]
        seen, out = set(), []
        for n in names:
            if n not in seen:
                seen.add(n)
                out.append(n)
        return out

    def answer(self, objname, opname, args):
        """canonical JSON of the result of one expression (exception = an answer)."""
        try:
            obj = self.ensure(objname)
            kind = self.objects[objname]["kind"]
            if opname == "__obs__":
                return None, dumps(self.observe(objname))
            rargs = [self.resolve(a) for a in args]
            # the caller's own argument values (containers and freshly built library objects that are not tracked as
            # live operands): quiet structural form before the call ...
            self.argmut = None
            before = [cjson(x) for x in rargs]
            try:
                res = ops.invoke(kind, opname, obj, rargs)
            finally:
                # ... and after it, whether it returned or raised
                after = [cjson(x) for x in rargs]
                if after != before:
                    i = next(j for j in range(len(before)) if before[j] != after[j])
                    self.argmut = {"i": i, "before": before[i][:300], "after": after[i][:300]}
        except Exception as e:
            return None, dumps(canon(e))
        return res, cjson(res)

    # -- lazily consumed answers (iterators stepped across several steps of the history)
    @staticmethod
    def _take(itr, n):
        """Take up to n items (None = drain).  Returns (items, end) with end 'more' | 'stop' | canonical exception."""
        import warnings

        items = []
        with warnings.catch_warnings():
            warnings.simplefilter("ignore")
            while n is None or len(items) < n:
                try:
                    items.append(canon(next(itr)))
                except StopIteration:
                    return items, "stop"
                except Exception as e:
                    return items, canon(e)
        return items, "more"

    def open_cursor(self, cur, objname, opname, args, take):
        """Invoke lazily; if the answer is an iterator keep it as a cursor and take the first items.
        Returns (is_cursor, canonical answer)."""
        try:
            obj = self.ensure(objname)
            kind = self.objects[objname]["kind"]
            rargs = [self.resolve(a) for a in args]
            res = ops.invoke(kind, opname, obj, rargs, lazy=True)
        except Exception as e:
            return False, dumps(canon(e))
        if not hasattr(res, "__next__"):
            return False, cjson(res)
        items, end = self._take(res, take)
        self.cursors[cur] = {"it": res, "pos": len(items), "done": end != "more"}
        return True, dumps({"#": "slice", "items": items, "end": end})

    def resume_cursor(self, cur, take):
        c = self.cursors.get(cur)
        if c is None or c["done"]:
            return None, None
        a = c["pos"]
        items, end = self._take(c["it"], take)
        c["pos"] += len(items)
        c["done"] = end != "more"
        return [a, None if take is None else a + take], dumps({"#": "slice", "items": items, "end": end})

    def answer_slice(self, objname, opname, args, sl):
        """What a consumer that drains the same expression alone sees between positions sl[0] and sl[1]."""
        try:
            obj = self.ensure(objname)
            kind = self.objects[objname]["kind"]
            rargs = [self.resolve(a) for a in args]
            res = ops.invoke(kind, opname, obj, rargs, lazy=True)
        except Exception as e:
            return dumps(canon(e))
        if not hasattr(res, "__next__"):
            return cjson(res)
        items, end = self._take(res, None)
        a, b = sl
        if b is None or b > len(items):
            return dumps({"#": "slice", "items": items[a:], "end": end})
        return dumps({"#": "slice", "items": items[a:b], "end": "more"})

    def observe(self, name):
        """Observable state of an operand as the property names it: dictionary form, equality, hash, identifier."""
        obj = self.ensure(name)
        out = {}
        for key, fn in (
            ("to_dict", lambda: obj.to_dict()),
            ("guid", lambda: obj.guid),
            ("hash", lambda: hash(obj)),
            ("str", lambda: str(obj)),
            ("eq_twin", lambda: obj == self.fresh(name)),
            ("hash_eq_twin", lambda: hash(obj) == hash(self.fresh(name))),
        ):
            try:
                out[key] = canon(fn())
            except AttributeError as e:
                if key in ("to_dict", "guid") and not hasattr(obj, key):
                    out[key] = {"#": "n/a"}
                else:
                    out[key] = canon(e)
            except Exception as e:
                out[key] = canon(e)
        kind = self.objects[name]["kind"]
        if kind in ("location", "parent", "sequence"):
            out["canon"] = canon(obj)
        return out

    def snapshot(self, name):
        s = cjson(self.live[name])
        if name in self.inputs:
            s += "|" + cjson(self.inputs[name])
        return s


def _refs(x):
    out = []
    if isinstance(x, dict):
        if x.get("$") in ("ref", "guids") and "n" in x:
            out.append(x["n"])
        for v in x.values():
            out.extend(_refs(v))
    elif isinstance(x, list):
        for v in x:
            out.extend(_refs(v))
    return out


def _root_of(objects, name):
    seen = set()
    while name in objects and "from" in objects[name] and name not in seen:
        seen.add(name)
        name = objects[name]["from"]
    return name


def _parent_cache_info():
    from inscripta.biocantor.parent.parent import Parent

    try:
        ci = Parent.cache_info()
        return [ci.hits, ci.misses, ci.currsize]
    except AttributeError:
        # the seam is an implementation detail of the library (functools.lru_cache on the class): a refactor may intern
        # Parents another way.  Floods still run; evictions are then not measured (reported as 0), never an error
        return [0, 0, 0]


def _warm(obj):
    d = getattr(obj, "__dict__", None)
    if not d:
        return False
    return any(k.startswith(WIRE_PREFIX) for k in d)


_IUPAC = "ACGTNWSMKRYBDHV"


def _thrash_value_tables(serial, n):
    """The other caller of a flood step also uses the small value classes with many distinct values (any IUPAC codon is a
    legal Codon): whatever process-wide table interns or memoises them with a bound gets its entries evicted."""
    from inscripta.biocantor.gene.codon import Codon

    k = len(_IUPAC)
    for j in range(min(n, 400)):
        x = (serial * 7 + j) % (k * k * k)
        try:
            Codon(_IUPAC[x // (k * k)] + _IUPAC[(x // k) % k] + _IUPAC[x % k])
        except Exception:
            pass


def world_main(plan):
    """Runs in the world child: execute the whole history, return per-step records."""
    from inscripta.biocantor.parent.parent import Parent

    it = Interp(plan)
    recs = []
    flood_serial = 0
    snap_cache = {}
    fam_version = {}
    for k, st in enumerate(plan["steps"]):
        t = st["t"]
        if t == "flood":
            before = _parent_cache_info()
            for i in range(st["n"]):
                Parent(id=f"flood-{flood_serial}")
                flood_serial += 1
            _thrash_value_tables(flood_serial, st["n"])
            after = _parent_cache_info()
            measured = hasattr(Parent, "cache_info")
            recs.append({"k": k, "t": t, "evicted": max(0, before[2] + st["n"] - after[2]) if measured else 0, "pc": after})
            continue
        if t == "gc":
            gc.collect()
            recs.append({"k": k, "t": t})
            continue
        if t == "touch":
            try:
                it.ensure(st["obj"])
                recs.append({"k": k, "t": t})
            except Exception as e:
                recs.append({"k": k, "t": t, "raise": type(e).__name__})
            continue
        # call
        rec = {"k": k, "t": "call"}
        try:
            it.ensure(st["obj"])
            for n in _refs(st.get("args", [])):
                it.ensure(n)
        except Exception as e:
            rec["ans"] = dumps(canon(e))
            rec["buildfail"] = True
            if "store" in st:
                it.live[st["store"]] = None
                rec["undef"] = True
            recs.append(rec)
            continue
        opers = it.operands(st)
        rec["warm"] = _warm(it.live[st["obj"]])
        # operand snapshots: the snapshot taken after the previous step on the same family is still valid if no step
        # touched that family since (only steps mutate; floods / gc / foreign builds never write to live objects)
        fams = {n: _root_of(plan["objects"], n) for n in opers}
        before = {}
        for n in opers:
            c = snap_cache.get(n)
            before[n] = c[1] if c and c[0] == fam_version.get(fams[n], 0) else it.snapshot(n)
        if "resume" in st:
            sl, ans = it.resume_cursor(st["resume"]["cur"], st["resume"]["take"])
            if sl is None:
                rec["skipped"] = True
                recs.append(rec)
                continue
            rec["slice"] = sl
            res = None
        elif "lazy" in st:
            is_cur, ans = it.open_cursor(st["lazy"]["cur"], st["obj"], st["op"], st.get("args", []), st["lazy"]["take"])
            if is_cur:
                rec["slice"] = [0, st["lazy"]["take"]]
            res = None
        else:
            res, ans = it.answer(st["obj"], st["op"], st.get("args", []))
            if it.argmut:
                rec["argmut"] = it.argmut
        rec["ans"] = ans
        for f in set(fams.values()):
            fam_version[f] = fam_version.get(f, 0) + 1
        if "store" in st:
            raised = ans.startswith('{"#":"raise"')
            it.live[st["store"]] = None if raised else res
            rec["stored_kind"] = ops.classify(res)
            if raised:
                rec["undef"] = True
        mutated = []
        for n in opers:
            after = it.snapshot(n)
            snap_cache[n] = (fam_version[fams[n]], after)
            if after != before[n]:
                mutated.append(n)
        if mutated:
            rec["mut"] = mutated
            rec["obs"] = {n: dumps(it.observe(n)) for n in mutated}
        rec["pc"] = _parent_cache_info()
        recs.append(rec)
    # I3: end-state observation of every live object that is a root
    end = {}
    for n, r in plan["objects"].items():
        if n in it.live and "spec" in r:
            end[n] = dumps(it.observe(n))
    return {"recs": recs, "end": end, "pid": os.getpid()}


def pristine_main(plan, objname, opname, args, sl=None):
    """Runs in a pristine child: evaluate one expression on freshly built objects (``sl``: the part of a lazily
    consumed answer between two positions)."""
    it = Interp(plan)
    if sl is not None:
        return it.answer_slice(objname, opname, args, sl)
    _, ans = it.answer(objname, opname, args)
    return ans


def twin_describe_main(plan, objname):
    """Stage 1, in a pristine child: derive the target by its recipe and describe the VALUES it carries as plain data."""
    import base64
    import pickle

    it = Interp(plan)
    try:
        orig = it.ensure(objname)
    except Exception as e:
        return {"skip": "derivation_raises:" + type(e).__name__}
    if orig is None:
        return {"skip": "none"}
    before = cjson(orig)
    try:
        desc = build.describe_value(orig)
    except Exception as e:
        return {"skip": "describe_raises:" + type(e).__name__}
    if desc == {"k": "EmptyLocation"}:
        return {"skip": "singleton"}
    return {"desc": base64.b64encode(pickle.dumps(desc)).decode(), "canon": before}


def twin_answer_main(plan, objname, opname, args, desc_b64, canon_orig):
    """Stage 2, in ANOTHER pristine child (the derivation never ran here, so nothing it may have left in process-wide
    tables exists): rebuild the object from the description through the public constructors and ask it the question.
    ``plan`` holds only what the arguments need."""
    import base64
    import pickle

    try:
        twin = build.build_from_description(pickle.loads(base64.b64decode(desc_b64)))
    except Exception as e:
        return {"skip": "rebuild_raises:" + type(e).__name__}
    if cjson(twin) != canon_orig:
        return {"skip": "not_structurally_equal"}
    it = Interp(plan)
    it.live[objname] = twin
    _, ans = it.answer(objname, opname, args)
    return {"ans": ans}


# ---------------------------------------------------------------------------------------------------------------
# expression identity (memo key for pristine answers)


def closure(plan, names):
    objects = plan["objects"]
    out = {}
    stack = list(names)
    while stack:
        n = stack.pop()
        if n in out or n not in objects:
            continue
        r = objects[n]
        out[n] = r
        if "from" in r:
            stack.append(r["from"])
            stack.extend(_refs(r["args"]))
            stack.extend(x["n"] for x in _twins(r["args"]))
    return out


def _twins(x):
    out = []
    if isinstance(x, dict):
        if x.get("$") == "twin":
            out.append(x)
        for v in x.values():
            out.extend(_twins(v))
    elif isinstance(x, list):
        for v in x:
            out.extend(_twins(v))
    return out


def expr_key(plan, objname, opname, args, sl=None):
    names = [objname] + _refs(args) + [x["n"] for x in _twins(args)]
    clo = closure(plan, names)
    blob = json.dumps([sorted(clo.items()), objname, opname, args] + ([sl] if sl is not None else []), sort_keys=True, default=str)
    return hashlib.sha256(blob.encode()).hexdigest()


def sub_plan(plan, objname, args):
    names = [objname] + _refs(args) + [x["n"] for x in _twins(args)]
    return {"objects": closure(plan, names), "steps": []}
