"""CLI: python -m bcsim.main run <ID> quick|thorough | batch ... | replay <file> | minimise ... | selftest ...

Exit codes: 0 = property held on everything explored (KNOWN-FINDING lines allowed); 1 = VIOLATION line(s) printed;
2 = HARNESS-ERROR (never reported as a pass or as a violation)."""
import importlib
import json
import os
import subprocess
import sys
import tempfile
import time

VERIF = os.path.dirname(os.path.dirname(os.path.abspath(__file__)))

DEFAULT_SEEDS = {"quick": 20261002, "thorough": 77001}


def _reexec_if_needed(argv):
    """One interpreter configuration for every check: fixed hash seed (unless a batch asks for another), no .pyc,
    /repo working tree first on the path."""
    want = {
        "PYTHONHASHSEED": os.environ.get("BCSIM_HASHSEED", "0"),
        "PYTHONDONTWRITEBYTECODE": "1",
        "OMP_NUM_THREADS": "1",
        "OPENBLAS_NUM_THREADS": "1",
    }
    if os.environ.get("BCSIM_REEXEC") == "1" and all(os.environ.get(k) == v for k, v in want.items()):
        return
    env = dict(os.environ)
    env.update(want)
    env["BCSIM_REEXEC"] = "1"
    repo = os.environ.get("BCSIM_REPO", "/repo")
    pp = [p for p in env.get("PYTHONPATH", "").split(":") if p and p not in ("/repo", repo, VERIF)]
    env["PYTHONPATH"] = ":".join([repo, VERIF] + pp)
    os.execve(sys.executable, [sys.executable, "-m", "bcsim.main"] + argv, env)


def load_check(cid):
    return importlib.import_module(f"bcsim.checks.{cid.lower()}")


def zygote_init():
    from bcsim import compat

    compat.import_library()
    from inscripta.biocantor.parent.parent import Parent
    from inscripta.biocantor.location.location_impl import _EmptyLocation

    if hasattr(Parent, "cache_info"):
        assert Parent.cache_info().currsize == 0, "zygote is not pristine: Parent cache not empty"
    assert getattr(_EmptyLocation, "_instance", None) is None, "zygote is not pristine: EmptyLocation instantiated"


def run_sub(args, hashseed, timeout=None):
    env = dict(os.environ)
    env["BCSIM_HASHSEED"] = str(hashseed)
    env["PYTHONHASHSEED"] = str(hashseed)
    env["BCSIM_REEXEC"] = "1"
    return subprocess.run([sys.executable, "-m", "bcsim.main"] + args, cwd=VERIF, env=env, capture_output=True, text=True, timeout=timeout)


def cmd_run(cid, tier):
    from bcsim import engine

    chk = load_check(cid)
    seed = engine.base_seed(DEFAULT_SEEDS[tier])
    print(f"[{chk.PROP}] tier={tier} VERIF_SEED={seed} repo={engine.repo_head()} workers={os.environ.get('VERIF_WORKERS') or os.cpu_count()}", flush=True)
    t0 = time.time()
    zygote_init()
    cfg = chk.TIERS[tier]
    cur_hs = os.environ.get("PYTHONHASHSEED", "0")
    batches = []
    harness_fail = None
    for hs in cfg.get("hashseeds", [0]):
        try:
            if str(hs) == cur_hs:
                b = chk.run_batch(tier, seed)
            else:
                with tempfile.NamedTemporaryFile(prefix="bcsim-batch-", suffix=".json", dir="/dev/shm", delete=False) as tf:
                    outp = tf.name
                try:
                    p = run_sub(["batch", cid, tier, str(seed), outp], hs, timeout=cfg["wall"] + 600)
                    if p.returncode != 0:
                        raise engine.PoolError(f"batch under hashseed {hs} failed rc={p.returncode}: {p.stdout[-500:]} {p.stderr[-1500:]}")
                    with open(outp) as f:
                        b = json.load(f)
                finally:
                    try:
                        os.unlink(outp)
                    except OSError:
                        pass
            batches.append(b)
        except Exception as e:
            harness_fail = f"{type(e).__name__}: {e}"
            break
    if harness_fail and not batches:
        print(f"HARNESS-ERROR: {harness_fail}")
        return 2
    agg = chk.aggregate(batches, tier, seed, t0)
    rc = 0
    nviol = 0
    unreproduced = []
    for kid, n in sorted(agg["known_hits"].items()):
        k = [x for x in agg["known"]["findings"] if x["id"] == kid][0]
        print(f"KNOWN-FINDING: property={chk.PROP} {kid}: {k['what']} (hit {n}x)")
    for v in agg["violations"][:4]:
        key, hs, idx, f, count = v
        print(f"[{chk.PROP}] new violation signature {key} first at run {idx} (hashseed {hs}), {count} instance(s); minimising...", flush=True)
        try:
            if str(hs) == cur_hs:
                path = chk.minimise_and_write(seed, idx, f, hs, tier=tier)
            else:
                p = run_sub(["minimise", cid, str(seed), str(idx), json.dumps(f), tier], hs, timeout=3600)
                path = p.stdout.strip().splitlines()[-1] if p.returncode == 0 and p.stdout.strip() else None
                if not path or not os.path.exists(path):
                    raise RuntimeError(f"minimise subprocess failed: {p.stdout[-500:]} {p.stderr[-1000:]}")
            ok, out = engine.replay_in_fresh_interpreter(path)
        except Exception as e:
            print(f"HARNESS-ERROR: minimisation/replay failed for {key}: {type(e).__name__}: {e}")
            rc = 2
            continue
        if ok:
            print(f"VIOLATION property={chk.PROP} replay={path}")
            nviol += 1
        else:
            unreproduced.append(key)
            print(f"UNREPRODUCED: {key} was observed in the batch but its minimised replay {path} did not fail the same way in a "
                  f"fresh interpreter (address- or entropy-dependent behaviour?); not reported as a violation:\n{out[-600:]}")
    if len(agg["violations"]) > 4:
        print(f"[{chk.PROP}] {len(agg['violations']) - 4} further violation signatures not minimised")
    if nviol:
        rc = 1 if rc != 2 else rc
    elif unreproduced:
        print(f"HARNESS-ERROR: {len(unreproduced)} violation signature(s) observed but none reproduced from its replay file")
        rc = 2
    if agg["harness_errors"]:
        e = agg["harness_errors"][0]
        print(f"HARNESS-ERROR: {len(agg['harness_errors'])} run(s) failed inside the harness, e.g.: {e.get('__harness_error__')}\n{e.get('tb','')[-1500:]}")
        rc = 2
    if harness_fail:
        print(f"HARNESS-ERROR: {harness_fail}")
        rc = 2
    wall = time.time() - t0
    cov = chk.evidence(agg, tier, seed, wall, batches)
    level = getattr(chk, "LEVEL", "exploration")
    path = engine.write_evidence(chk.PROP, tier, seed, level, cov, wall, nviol, chk.ASSUMPTIONS)
    print(f"[{chk.PROP}] runs={cov['evaluations']} distinct_nontrivial={cov['distinct_nontrivial']} violations={nviol} "
          f"known_hits={sum(agg['known_hits'].values())} wall={wall:.1f}s evidence={path} exit={rc}", flush=True)
    return rc


def cmd_batch(cid, tier, seed, outp):
    zygote_init()
    chk = load_check(cid)
    b = chk.run_batch(tier, int(seed))
    with open(outp, "w") as f:
        json.dump(b, f, default=str)
    return 0


def cmd_minimise(cid, seed, idx, finding_json, tier="quick"):
    zygote_init()
    chk = load_check(cid)
    path = chk.minimise_and_write(int(seed), int(idx), json.loads(finding_json), os.environ.get("PYTHONHASHSEED", "0"), tier=tier)
    print(path)
    return 0


def cmd_replay(path):
    with open(path) as f:
        doc = json.load(f)
    hs = str(doc.get("hashseed", "0"))
    if os.environ.get("PYTHONHASHSEED") != hs:
        env = dict(os.environ)
        env["PYTHONHASHSEED"] = hs
        env["BCSIM_HASHSEED"] = hs
        env["BCSIM_REEXEC"] = "1"
        os.execve(sys.executable, [sys.executable, "-m", "bcsim.main", "replay", path], env)
    zygote_init()
    chk = load_check(doc["check"])
    ok, findings = chk.replay(doc)
    for f in findings:
        print("finding:", json.dumps({k: v for k, v in f.items() if k not in ("world", "pristine")}, default=str))
        if "world" in f:
            print("   world   :", str(f["world"])[:300])
            print("   pristine:", str(f["pristine"])[:300])
    if ok:
        print(f"REPRODUCED property={doc['check']} expect={json.dumps(doc.get('expect'))}")
        return 1
    print("not reproduced")
    return 0


def main(argv):
    if not argv:
        print(__doc__)
        return 2
    if argv[0] == "selftest":
        _reexec_if_needed(argv)
        from bcsim import selftest

        return selftest.main(argv[1:])
    _reexec_if_needed(argv)
    cmd = argv[0]
    try:
        if cmd == "run":
            return cmd_run(argv[1], argv[2] if len(argv) > 2 else os.environ.get("VERIF_TIER", "quick"))
        if cmd == "batch":
            return cmd_batch(*argv[1:5])
        if cmd == "minimise":
            return cmd_minimise(*argv[1:6])
        if cmd == "replay":
            return cmd_replay(argv[1])
    except AssertionError as e:
        print(f"HARNESS-ERROR: {e}")
        return 2
    except Exception as e:
        import traceback

        traceback.print_exc()
        print(f"HARNESS-ERROR: {type(e).__name__}: {e}")
        return 2
    print(__doc__)
    return 2


if __name__ == "__main__":
    sys.exit(main(sys.argv[1:]))
