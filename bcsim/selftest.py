"""Self-tests of the simulator: setup probe, determinism, evidence schema, planted-mutant sensitivity."""
import glob
import json
import os
import shutil
import subprocess
import sys
import tempfile
import time

VERIF = os.path.dirname(os.path.dirname(os.path.abspath(__file__)))
ALL_CHECKS = ["C10", "C08", "C17", "C11", "C12"]


def built_checks():
    return [c for c in ALL_CHECKS if os.path.exists(os.path.join(VERIF, "bcsim", "checks", c.lower() + ".py"))]


def st_setup(args):
    """MANIFEST.setup_cmd: nothing to compile; verify the interpreter, the third-party stack and that /repo imports
    through the compat layer, and that a forked world and a pristine oracle agree on one trivial history."""
    from bcsim import compat

    compat.import_library()
    import Bio
    import gffutils
    import marshmallow  # noqa: F401

    print("python", sys.version.split()[0], "biopython", Bio.__version__, "gffutils", gffutils.__version__)
    print("compat applied:", compat.APPLIED)
    from bcsim import judge, engine
    from bcsim.checks import c10

    p = c10.gen(1, 0)
    r = judge.run_plan(p)
    print("probe history:", r["stats"]["steps"], "steps,", r["stats"]["compared"], "answers compared,", len(r["findings"]), "findings")
    os.makedirs(engine.EVIDENCE_DIR, exist_ok=True)
    os.makedirs(engine.REPLAY_DIR, exist_ok=True)
    print("setup ok")
    return 0


def _digests(cid, seed, n, hashseed, workers):
    env = dict(os.environ)
    env.update(PYTHONHASHSEED=str(hashseed), BCSIM_HASHSEED=str(hashseed), BCSIM_REEXEC="1", VERIF_WORKERS=str(workers))
    code = (
        "import json,sys\n"
        "from bcsim import main as m\n"
        "m.zygote_init()\n"
        "from bcsim import engine\n"
        f"chk = m.load_check('{cid}')\n"
        f"items=[({seed}, i) if chk.PROP == 'C10' else ({seed}, i, 'quick') for i in range({n})]\n"
        "from bcsim import node\n"
        "res = engine.pool_map(chk.run_one, items, wall_cap=3000, fini=node.close_nodes)\n"
        "bad = [r for i, r in res if '__harness_error__' in r]\n"
        "assert not bad, bad[0]\n"
        "print(json.dumps([[i, r.get('digest'), r.get('plan_digest'), len(r.get('findings', []))] for i, r in res]))\n"
    )
    p = subprocess.run([sys.executable, "-c", code], cwd=VERIF, env=env, capture_output=True, text=True, timeout=3600)
    if p.returncode != 0:
        raise RuntimeError(p.stderr[-2000:])
    return json.loads(p.stdout.strip().splitlines()[-1])


def st_determinism(args):
    """Same (seed, run) twice, in fresh interpreters, at 1-ish and many workers, under two coordinator hash seeds:
    event-log digests must be identical per hash seed, plan digests identical across hash seeds."""
    n = int(args[0]) if args else 200
    checks = args[1:] or built_checks()
    bad = 0
    for cid in checks:
        t0 = time.time()
        a = _digests(cid, 4242, n, 0, 16)
        b = _digests(cid, 4242, n, 0, 3)
        c = _digests(cid, 4242, n, 12345, 16)
        d = _digests(cid, 4242, n, 12345, 5)
        d_ab = [x for x, y in zip(a, b) if x != y]
        d_cd = [x for x, y in zip(c, d) if x != y]
        d_plan = [x for x, y in zip(a, c) if x[2] != y[2]]
        print(f"[{cid}] {n} runs x 4 interpreters in {time.time()-t0:.0f}s: hashseed0 16w vs 3w diffs={len(d_ab)}; "
              f"hashseed12345 16w vs 5w diffs={len(d_cd)}; plan digests differing across hash seeds={len(d_plan)}")
        if d_ab or d_cd or d_plan:
            bad += 1
            print("   first diffs:", (d_ab or d_cd or d_plan)[:3])
    print("determinism", "FAILED" if bad else "ok")
    return 1 if bad else 0


def st_schema(args):
    try:
        import jsonschema
    except ImportError:
        vt = shutil.which("python3-vt")
        if not vt or os.environ.get("BCSIM_VT") == "1":
            print("jsonschema not available")
            return 2
        env = dict(os.environ, BCSIM_VT="1", PYTHONPATH=VERIF)
        return subprocess.call([vt, "-c", "import sys; from bcsim import selftest; sys.exit(selftest.st_schema([]))"], cwd=VERIF, env=env)

    with open("/root/.vp/EVIDENCE.schema.json") as f:
        es = json.load(f)
    with open("/root/.vp/MANIFEST.schema.json") as f:
        ms = json.load(f)
    with open(os.path.join(VERIF, "MANIFEST.json")) as f:
        man = json.load(f)
    jsonschema.validate(man, ms)
    print("MANIFEST.json valid;", len(man["checks"]), "checks,", len(man.get("not_applicable", [])), "not applicable")
    for path in sorted(glob.glob(os.path.join(VERIF, "evidence", "*.json"))):
        with open(path) as f:
            jsonschema.validate(json.load(f), es)
        print("valid:", os.path.basename(path))
    ids = {c["property_id"] for c in man["checks"]} | {c["property_id"] for c in man.get("not_applicable", [])}
    props = [json.loads(l)["id"] for l in open(os.path.join(VERIF, "properties.jsonl"))]
    missing = [p for p in props if p not in ids]
    print("properties not mentioned in MANIFEST:", missing)
    return 1 if missing else 0


def st_reach(args):
    """Reach probes: every fault kind a check claims must actually have fired in its last run (a probe stuck at zero
    means the workload or fault mix must change)."""
    bad = []
    for path in sorted(glob.glob(os.path.join(VERIF, "evidence", "*.json"))):
        ev = json.load(open(path))
        cov = ev["coverage"]
        zeros = []
        for group in ("faults_fired", "reach_probes"):
            for k, v in (cov.get(group) or {}).items():
                if isinstance(v, (int, float)) and v == 0 and "fresh_interpreter" not in k and "constructor_refused" not in k and "invalid" not in k \
                        and "silent_structural" not in k and "tainted" not in k:
                    zeros.append(f"{group}.{k}")
        print(os.path.basename(path), ev["tier"], "evaluations", cov["evaluations"], "zero probes:", zeros or "none")
        if zeros:
            bad.append(path)
    return 1 if bad else 0


def main(argv):
    name = argv[0] if argv else "setup"
    fn = {"setup": st_setup, "determinism": st_determinism, "schema": st_schema, "reach": st_reach}.get(name)
    if name == "mutants":
        from bcsim import mutants

        return mutants.main(argv[1:])
    if not fn:
        print("unknown selftest", name)
        return 2
    return fn(argv[1:])
