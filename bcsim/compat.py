"""Harness-side compatibility layer for dependency drift (marshmallow 4 / BioPython >= 1.82 / missing pyvcf3).

Restores the *old documented semantics of third-party APIs* that BioCantor @ db79146 was written against.  It patches
third-party modules only, in the harness process only; /repo is untouched.  Must be imported BEFORE any
``inscripta.biocantor`` module.  Idempotent; each patch is skipped when the native API already accepts the old call.

Listed under "stubs" in every evidence file that depends on it (io.models, GenBank reader/writer).
"""
import sys
import types

_DONE = False
APPLIED = []


def _patch_marshmallow():
    import inspect
    import marshmallow

    try:
        params = inspect.signature(marshmallow.post_dump).parameters
    except (TypeError, ValueError):  # pragma: no cover
        return
    if "pass_many" in params:
        return
    orig_post_dump = marshmallow.post_dump

    def post_dump(fn=None, pass_many=None, pass_collection=False, pass_original=False):
        if pass_many is not None:
            pass_collection = pass_many
        return orig_post_dump(fn, pass_collection=pass_collection, pass_original=pass_original)

    post_dump.__wrapped__ = orig_post_dump
    marshmallow.post_dump = post_dump
    try:
        import marshmallow.decorators as md

        md.post_dump = post_dump
    except Exception:  # pragma: no cover
        pass
    APPLIED.append("marshmallow.post_dump(pass_many->pass_collection)")


def _patch_vcf():
    try:
        import vcf  # noqa: F401

        return
    except Exception:
        pass
    vcf = types.ModuleType("vcf")
    model = types.ModuleType("vcf.model")

    class _Record(object):
        pass

    class Reader(object):
        pass

    model._Record = _Record
    vcf.model = model
    vcf.Reader = Reader
    sys.modules["vcf"] = vcf
    sys.modules["vcf.model"] = model
    APPLIED.append("fake vcf module (never exercised)")


def _patch_biopython():
    from Bio.SeqFeature import SeqFeature, SimpleLocation, CompoundLocation
    import inspect

    params = inspect.signature(SeqFeature.__init__).parameters
    if "strand" not in params:
        orig_init = SeqFeature.__init__

        def __init__(self, location=None, type="", id="<unknown id>", qualifiers=None, sub_features=None, **kw):
            strand = kw.pop("strand", None)
            kw.pop("ref", None)
            kw.pop("ref_db", None)
            kw.pop("location_operator", None)
            orig_init(self, location=location, type=type, id=id, qualifiers=qualifiers, sub_features=sub_features)
            if strand is not None and self.location is not None:
                self.location.strand = strand

        SeqFeature.__init__ = __init__
        APPLIED.append("Bio.SeqFeature.SeqFeature(strand=) sets location.strand")
    if not hasattr(SeqFeature, "strand"):

        def _get_strand(self):
            return self.location.strand if self.location is not None else None

        def _set_strand(self, value):
            self.location.strand = value

        SeqFeature.strand = property(_get_strand, _set_strand)
        APPLIED.append("Bio.SeqFeature.SeqFeature.strand property")
    for cls in (SimpleLocation, CompoundLocation):
        if not hasattr(cls, "nofuzzy_start"):
            cls.nofuzzy_start = property(lambda self: int(self.start))
            cls.nofuzzy_end = property(lambda self: int(self.end))
            APPLIED.append(f"Bio.SeqFeature.{cls.__name__}.nofuzzy_start/end = int(start/end)")


def install():
    global _DONE
    if _DONE:
        return
    _patch_marshmallow()
    _patch_vcf()
    _patch_biopython()
    _DONE = True


def import_library():
    """Import every BioCantor module the harness uses, in an order that avoids the circular import."""
    install()
    import inscripta.biocantor.location  # noqa: F401  (must precede parent.parent)
    import inscripta.biocantor.parent.parent  # noqa: F401
    import inscripta.biocantor.sequence  # noqa: F401
    import inscripta.biocantor.gene.collections  # noqa: F401
    import inscripta.biocantor.gene.variants  # noqa: F401
    import inscripta.biocantor.io.models  # noqa: F401
    import inscripta.biocantor.io.parser  # noqa: F401
    import inscripta.biocantor.io.gff3.writer  # noqa: F401
    import inscripta.biocantor.io.gff3.parser  # noqa: F401
    import inscripta.biocantor.io.genbank.writer  # noqa: F401
    import inscripta.biocantor.io.genbank.parser  # noqa: F401
    import inscripta.biocantor.io.ncbi.tbl_writer  # noqa: F401
    import inscripta.biocantor.io.fasta.fasta  # noqa: F401
