"""Shared machinery: seed derivation, fork pool with watchdog, known findings, replay files, evidence writer."""
import hashlib
import json
import os
import random
import select
import signal
import subprocess
import sys
import time
import traceback

VERIF = os.path.dirname(os.path.dirname(os.path.abspath(__file__)))
OUT = os.environ.get("BCSIM_OUT") or VERIF  # selftests redirect evidence/replays away from the committed ones
REPLAY_DIR = os.path.join(OUT, "replays")
EVIDENCE_DIR = os.path.join(OUT, "evidence")
KNOWN_FILE = os.path.join(VERIF, "known_findings.json")
PYTHON = sys.executable

STUBS = [
    "bcsim/compat.py: marshmallow.post_dump(pass_many) shim, BioPython SeqFeature(strand=)/nofuzzy_* shims, empty fake 'vcf' module",
    "SimDisk text handles (in-memory writer/reader passed as the handle argument)",
]
REAL = [
    "all of inscripta.biocantor from /repo working tree (pure-Python paths; cgranges absent so HAS_CGRANGES is False)",
    "BioPython 1.88, gffutils 0.14 + sqlite3, marshmallow 4 / marshmallow_dataclass, methodtools",
]


def derive_seed(seed, *parts):
    blob = ":".join([str(seed)] + [str(p) for p in parts]).encode()
    return int.from_bytes(hashlib.sha256(blob).digest()[:8], "big")


def rng_for(seed, *parts):
    return random.Random(derive_seed(seed, *parts))


def base_seed(default):
    v = os.environ.get("VERIF_SEED")
    if v is None or v == "":
        return default
    try:
        return int(v)
    except ValueError:
        return int.from_bytes(hashlib.sha256(v.encode()).digest()[:6], "big")


def plan_digest(plan):
    return hashlib.sha256(json.dumps(plan, sort_keys=True, default=str).encode()).hexdigest()


# ---------------------------------------------------------------------------------------------------------------
# fork pool


class PoolError(Exception):
    pass


def pool_map(fn, items, nworkers=None, wall_cap=None, init=None, progress=None, fini=None):
    """Run fn(item) for every item in forked workers (static stride partition).  Yields nothing; returns list of
    (item_index, result) sorted by index.  Worker exceptions are returned as {"__harness_error__": ...}.
    Raises PoolError if the wall cap is exceeded or a worker dies."""
    nworkers = nworkers or int(os.environ.get("VERIF_WORKERS", "0")) or os.cpu_count() or 4
    nworkers = max(1, min(nworkers, len(items) or 1))
    procs = []
    sys.stdout.flush()
    sys.stderr.flush()
    for w in range(nworkers):
        r, wfd = os.pipe()
        pid = os.fork()
        if pid == 0:
            code = 0
            try:
                os.close(r)
                for pr in procs:
                    try:
                        os.close(pr["r"])
                    except OSError:
                        pass
                if init:
                    init()
                out = os.fdopen(wfd, "w")
                for i in range(w, len(items), nworkers):
                    try:
                        res = fn(items[i])
                    except BaseException as e:
                        res = {"__harness_error__": f"{type(e).__name__}: {e}", "tb": traceback.format_exc()[-2000:]}
                    out.write(json.dumps([i, res], default=str) + "\n")
                    out.flush()
                out.close()
                if fini:
                    fini()
            except BaseException:
                code = 3
            finally:
                os._exit(code)
        os.close(wfd)
        procs.append({"pid": pid, "r": r, "buf": b"", "done": False})
    results = {}
    deadline = time.monotonic() + wall_cap if wall_cap else None
    try:
        while not all(p["done"] for p in procs):
            if deadline and time.monotonic() > deadline:
                raise PoolError(f"wall cap {wall_cap}s exceeded with {len(results)}/{len(items)} done")
            fds = [p["r"] for p in procs if not p["done"]]
            rl, _, _ = select.select(fds, [], [], 2.0)
            for p in procs:
                if p["r"] in rl:
                    b = os.read(p["r"], 1 << 20)
                    if not b:
                        p["done"] = True
                        continue
                    p["buf"] += b
                    while b"\n" in p["buf"]:
                        line, p["buf"] = p["buf"].split(b"\n", 1)
                        i, res = json.loads(line)
                        results[i] = res
                        if progress:
                            progress(len(results))
    except BaseException:
        for p in procs:
            try:
                os.kill(p["pid"], signal.SIGKILL)
            except OSError:
                pass
        raise
    finally:
        for p in procs:
            try:
                os.close(p["r"])
            except OSError:
                pass
            try:
                os.waitpid(p["pid"], 0)
            except OSError:
                pass
    if len(results) != len(items):
        missing = [i for i in range(len(items)) if i not in results][:5]
        raise PoolError(f"worker died: {len(items) - len(results)} items missing, e.g. {missing}")
    return [(i, results[i]) for i in sorted(results)]


# ---------------------------------------------------------------------------------------------------------------
# known findings


def load_known():
    try:
        with open(KNOWN_FILE) as f:
            return json.load(f)
    except FileNotFoundError:
        return {"findings": [], "fixed": []}


def match_known(known, prop, finding):
    """A known finding matches when every key of its 'match' dict equals the finding's value (lists = any-of)."""
    for k in known.get("findings", []):
        if k.get("property") != prop:
            continue
        ok = True
        for key, want in k["match"].items():
            have = finding.get(key)
            if isinstance(want, list):
                if have not in want:
                    ok = False
                    break
            elif have != want:
                ok = False
                break
        if ok:
            return k
    return None


# ---------------------------------------------------------------------------------------------------------------
# replay files / evidence


def write_replay(prop, doc):
    os.makedirs(REPLAY_DIR, exist_ok=True)
    # never sort keys here: insertion order of dicts inside a case (e.g. qualifier keys) can be the essence of a failure
    blob = json.dumps(doc, indent=1, default=str)
    dig = hashlib.sha256(blob.encode()).hexdigest()[:12]
    path = os.path.join(REPLAY_DIR, f"{prop}-{dig}.json")
    with open(path, "w") as f:
        f.write(blob)
    return path


def replay_in_fresh_interpreter(path, timeout=600):
    """Re-run a replay file in a brand-new interpreter; returns (reproduced: bool, output)."""
    env = dict(os.environ)
    env["BCSIM_REEXEC"] = "1"
    try:
        p = subprocess.run(
            [PYTHON, "-m", "bcsim.main", "replay", path], cwd=VERIF, env=env, capture_output=True, text=True, timeout=timeout
        )
    except subprocess.TimeoutExpired:
        return False, "replay timed out"
    return p.returncode == 1 and "REPRODUCED" in p.stdout, p.stdout[-2000:] + p.stderr[-2000:]


def write_evidence(prop, tier, seed, level, coverage, wall_s, violations, assumptions):
    os.makedirs(EVIDENCE_DIR, exist_ok=True)
    doc = {
        "property_id": prop,
        "tier": tier,
        "seed": int(seed),
        "level": level,
        "coverage": coverage,
        "assumptions": assumptions,
        "wall_s": round(wall_s, 3),
        "violations": int(violations),
    }
    path = os.path.join(EVIDENCE_DIR, f"{prop}.json")
    tmp = path + ".tmp"
    with open(tmp, "w") as f:
        json.dump(doc, f, indent=1, sort_keys=True, default=str)
    os.replace(tmp, path)
    return path


def repo_head():
    try:
        repo = os.environ.get("BCSIM_REPO", "/repo")
        out = subprocess.run(["git", "-C", repo, "rev-parse", "--short", "HEAD"], capture_output=True, text=True).stdout.strip()
        dirty = subprocess.run(["git", "-C", repo, "status", "--porcelain", "--", "inscripta"], capture_output=True, text=True).stdout.strip()
        return (out or "unknown") + ("+dirty" if dirty else "")
    except Exception:
        return "unknown"
