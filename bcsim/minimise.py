"""Delta debugging over explicit step lists (plans) and generic lists."""
import copy


import time as _time

BUDGET_S = float(__import__("os").environ.get("BCSIM_MINIMISE_BUDGET_S", "150"))


def ddmin(items, test, max_tests=400, deadline=None):
    """Classic ddmin: returns a 1-minimal sublist of ``items`` for which test(sublist) is True.
    ``test`` must be deterministic.  Bounded by max_tests evaluations."""
    n = 2
    tests = 0
    items = list(items)
    deadline = deadline or (_time.monotonic() + BUDGET_S)
    while len(items) >= 2 and tests < max_tests and _time.monotonic() < deadline:
        chunk = max(1, len(items) // n)
        subsets = [items[i:i + chunk] for i in range(0, len(items), chunk)]
        reduced = False
        # try complements first (removing one chunk)
        for i in range(len(subsets)):
            comp = [x for j, s in enumerate(subsets) if j != i for x in s]
            tests += 1
            if comp and test(comp):
                items = comp
                n = max(n - 1, 2)
                reduced = True
                break
            if tests >= max_tests or _time.monotonic() > deadline:
                break
        if not reduced:
            if n >= len(items):
                break
            n = min(len(items), n * 2)
    return items


def minimise_plan(plan, fails, normalize, max_tests=300):
    """Shrink a failing plan: drop steps (ddmin), then shrink flood sizes; ``fails(plan)->bool`` re-runs it."""
    base = copy.deepcopy(plan)

    def with_steps(steps):
        p = dict(base)
        p["steps"] = list(steps)
        return normalize(p)

    steps = ddmin(base["steps"], lambda ss: fails(with_steps(ss)), max_tests=max_tests)
    cur = with_steps(steps)
    # shrink flood sizes
    for i, st in enumerate(cur["steps"]):
        if st["t"] == "flood":
            for n in (1, 10, 100, 1000):
                if n >= st["n"]:
                    break
                trial = copy.deepcopy(cur)
                trial["steps"][i]["n"] = n
                if fails(trial):
                    cur = trial
                    break
    return cur
