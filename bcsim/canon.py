"""Canonical, *quiet* JSON form of any BioCantor value.

"Quiet" means: computing the canonical form never calls a library property or method that fills a memo or lazy
field (e.g. ``CompoundInterval.blocks``, ``Parent.strand``, ``AbstractInterval.chromosome_location``), so observing an
answer does not perturb the history under test.  Library objects are walked structurally through ``__slots__`` and
``__dict__``; memo tables and lazily-filled fields are skipped (their *effects* are what invariant I1 checks).

The form records the type of every node (``str`` vs ``Sequence`` is a difference) and never an address or identity.
"""
import enum
import json
import types
import uuid
from collections import abc

# lazily-filled / memo fields: legitimately history dependent, excluded from structure
LAZY_FIELDS = frozenset(
    [
        "_sequence",  # SingleInterval / CompoundInterval extract_sequence memo
        "_single_interval_store",
        "_is_overlapping",
        "_strand_property",
        "_alternative_sequence",
        "_parent_with_alternative_sequence",
        "_alternative_genomic_sequence",
        "_chunk_relative_codon_locations_cached",
        "_instance",
    ]
)
WIRE_PREFIX = "__wire|"

# private attributes that carry an object's *value* (everything else that starts with an underscore is treated as an
# implementation detail - a memo, a lazily filled field, bookkeeping - and is not part of the canonical form, so that a
# behaviour-preserving refactor that adds such a field cannot raise an alarm; what such a field *does* is still
# compared through the public answers)
CORE_PRIVATE = frozenset(
    [
        "_id", "_name", "_location", "_parent_or_seq_chunk_parent", "_genomic_starts", "_genomic_ends", "_strand", "_val",
        "_starts", "_ends", "_is_primary_feature", "_len", "_cds_start", "_cds_end", "_cds_frames",
    ]
)

MAX_DEPTH = 80  # never reached on real values (finite DAGs, parent chains <= 5 levels); only a guard against cycles


def _is_lib_obj(x):
    mod = type(x).__module__ or ""
    return mod.startswith("inscripta.")


def _fields(x):
    out = {}
    for klass in type(x).__mro__:
        for s in getattr(klass, "__slots__", ()) or ():
            if isinstance(s, str) and s not in out:
                try:
                    out[s] = object.__getattribute__(x, s)
                except Exception:  # unset slot, or a slot name shadowed by a property that raises
                    pass
    d = getattr(x, "__dict__", None)
    if d:
        cls = type(x)
        for k, v in d.items():
            # an instance attribute that shadows a class-level descriptor (functools.cached_property and home-made
            # equivalents store the computed value under the property's own name) is a memo, not part of the value
            ca = getattr(cls, k, None) if isinstance(k, str) else None
            if ca is not None and hasattr(type(ca), "__get__") and not isinstance(ca, (staticmethod, classmethod)) and not callable(ca):
                continue
            out[k] = v
    return out


def canon(x, depth=0, memo=None):
    """Return a JSON-serialisable canonical form.  ``memo`` (id -> form) shares the forms of library objects that
    are reachable many times inside one value (the same Parent / Sequence hangs off every location of a collection);
    entries are only valid within one top-level call, during which the value is not mutated."""
    if memo is None:
        memo = {}
    if depth > MAX_DEPTH:
        return {"#": "depth"}
    if x is None or isinstance(x, (bool, int)) and not isinstance(x, enum.Enum):
        return x
    if isinstance(x, float):
        return {"#": "float", "v": repr(x)}
    if isinstance(x, enum.Enum):
        return {"#": "enum", "t": type(x).__name__, "n": x.name}
    if isinstance(x, str):
        return x
    if isinstance(x, bytes):
        return {"#": "bytes", "v": x.hex()}
    if isinstance(x, uuid.UUID):
        return {"#": "uuid", "v": str(x)}
    if isinstance(x, BaseException):
        return {"#": "raise", "t": type(x).__name__}
    if isinstance(x, tuple):
        return {"#": "tuple", "v": [canon(i, depth + 1, memo) for i in x]}
    if isinstance(x, list):
        return [canon(i, depth + 1, memo) for i in x]
    if isinstance(x, (set, frozenset)):
        items = [canon(i, depth + 1, memo) for i in x]
        return {"#": "set", "v": sorted(items, key=_sort_key)}
    if isinstance(x, dict):
        items = [[canon(k, depth + 1, memo), canon(v, depth + 1, memo)] for k, v in x.items()]
        return {"#": "dict", "v": sorted(items, key=lambda kv: _sort_key(kv[0]))}
    if isinstance(x, (types.GeneratorType, abc.Iterator)):
        return {"#": "iter", "v": [canon(i, depth + 1, memo) for i in x]}
    tname = type(x).__name__
    mod = type(x).__module__ or ""
    if _is_lib_obj(x):
        if tname in ("GFFRow", "GFFAttributes", "BED12", "RGB"):
            return {"#": tname, "v": str(x)}
        if tname == "_EmptyLocation":
            return {"#": "EmptyLocation"}
        key = id(x)
        if key in memo:
            return memo[key][1]
        fields = _fields(x)
        out = {"#": tname}
        memo[key] = (x, out)  # keep x alive so that its id cannot be reused within this call
        if tname == "Parent" and "_strand" in fields and "location" in fields:
            # Parent.__eq__ and every public accessor see only the *effective* strand (location's strand if there is
            # a non-empty location, else the explicit one); the private ``_strand`` slot is not observable and two
            # equal Parents legitimately differ in it.  Computed quietly (Parent.strand would fill a lazy field).
            fields = dict(fields)
            explicit = fields.pop("_strand")
            loc = fields.get("location")
            eff = explicit if explicit else None
            try:
                if loc is not None and len(loc) > 0:
                    eff = loc.strand
            except Exception:
                pass
            fields["strand"] = eff
        for k in sorted(fields):
            if k in LAZY_FIELDS or k.startswith(WIRE_PREFIX) or (k.startswith("_") and k not in CORE_PRIVATE):
                continue
            out[k] = canon(fields[k], depth + 1, memo)
        return out
    if mod.startswith("Bio."):
        if tname == "Seq":
            return {"#": "Seq", "v": str(x)}
        return {"#": "bio:" + tname, "v": repr(x)}
    if tname in ("lru_cache_wrapper", "_lru_cache_wrapper") or mod.startswith("wirerope") or mod.startswith(
        "methodtools"
    ):
        return {"#": "cache-wrapper"}
    if callable(x):
        return {"#": "callable", "n": getattr(x, "__qualname__", tname)}
    return {"#": "py:" + tname, "v": repr(x)}


def _sort_key(c):
    return json.dumps(c, sort_keys=True, ensure_ascii=True, default=str)


def dumps(c):
    return json.dumps(c, sort_keys=True, ensure_ascii=True, separators=(",", ":"))


def cjson(x):
    return dumps(canon(x))


def first_diff(a, b, path=""):
    """Human-readable location + kind of the first difference between two canonical forms."""
    if type(a) is not type(b):
        return path or "/", _kind(a, b)
    if isinstance(a, dict):
        if a.get("#") != b.get("#"):
            return path or "/", _kind(a, b)
        for k in sorted(set(a) | set(b)):
            if k not in a or k not in b:
                return f"{path}/{k}", "field-missing"
            if a[k] != b[k]:
                return first_diff(a[k], b[k], f"{path}/{k}")
        return path or "/", "equal"
    if isinstance(a, list):
        if len(a) != len(b):
            return path or "/", "length"
        for i, (x, y) in enumerate(zip(a, b)):
            if x != y:
                return first_diff(x, y, f"{path}/{i}")
        return path or "/", "equal"
    return path or "/", ("equal" if a == b else "value")


def _tag(c):
    if isinstance(c, dict):
        return c.get("#", "dict")
    if c is None:
        return "None"
    return type(c).__name__


def _kind(a, b):
    ta, tb = _tag(a), _tag(b)
    if "raise" in (ta, tb):
        return f"raise:{ta}!={tb}"
    return f"type:{ta}!={tb}"


def diff_kind(a, b):
    """Coarse class of a difference, used in violation signatures: 'type', 'raise', 'value', 'length' ..."""
    _, k = first_diff(a, b)
    return k.split(":")[0]
