"""Simulated 'nodes': interpreter processes with a chosen PYTHONHASHSEED.

A node server is a zygote: it imports the compat layer + library once and then never calls the library; every request
is executed in a forked child (so requests cannot leak state into each other and a request is exactly replayable).
The only thing that travels between nodes is the JSON text of requests/results (bytes payloads are base64), i.e.
"a process ends and another process, with another hash seed, continues from serialized bytes".

    python -m bcsim.node            # serve requests from stdin, one JSON per line
    python -m bcsim.node --once     # a genuinely fresh interpreter: read one request, execute it in-process, exit
"""
import importlib
import json
import os
import select
import subprocess
import sys
import time

VERIF = os.path.dirname(os.path.dirname(os.path.abspath(__file__)))


def dispatch(req):
    mod, fn = req["op"].split(".")
    m = importlib.import_module(f"bcsim.checks.{mod}")
    return getattr(m, "h_" + fn)(req)


def serve():
    from bcsim import compat

    compat.import_library()
    from bcsim import world

    out = sys.stdout
    for line in sys.stdin:
        line = line.strip()
        if not line:
            continue
        req = json.loads(line)
        if req.get("op") == "ping":
            res = {"ok": {"hashseed": os.environ.get("PYTHONHASHSEED"), "pid": os.getpid()}}
        else:
            try:
                res = {"ok": world.run_in_fork(dispatch, req, timeout=req.get("timeout", 120))}
            except Exception as e:
                res = {"harness_error": f"{type(e).__name__}: {e}"[:3000]}
        out.write(json.dumps(res) + "\n")
        out.flush()


def once():
    from bcsim import compat

    compat.import_library()
    req = json.loads(sys.stdin.read())
    try:
        res = {"ok": dispatch(req)}
    except Exception as e:
        import traceback

        res = {"harness_error": f"{type(e).__name__}: {e}\n{traceback.format_exc()[-2000:]}"}
    sys.stdout.write(json.dumps(res) + "\n")


class NodeError(Exception):
    pass


def _env(hashseed):
    env = dict(os.environ)
    env["PYTHONHASHSEED"] = str(hashseed)
    env["PYTHONDONTWRITEBYTECODE"] = "1"
    repo = os.environ.get("BCSIM_REPO", "/repo")
    env["PYTHONPATH"] = ":".join([repo, VERIF])
    return env


class Nodes:
    """Owned by one pool worker: lazily started node servers keyed by hash seed."""

    def __init__(self):
        self.procs = {}
        self.calls = 0
        self.fresh_calls = 0

    def _start(self, hs):
        p = subprocess.Popen(
            [sys.executable, "-m", "bcsim.node"], cwd=VERIF, env=_env(hs), stdin=subprocess.PIPE, stdout=subprocess.PIPE,
            stderr=subprocess.DEVNULL, text=True, bufsize=1,
        )
        self.procs[hs] = p
        r = self._roundtrip(p, {"op": "ping"}, 120)
        if str(r.get("hashseed")) != str(hs):
            raise NodeError(f"node reports hashseed {r.get('hashseed')} != {hs}")
        return p

    def _roundtrip(self, p, req, timeout):
        p.stdin.write(json.dumps(req) + "\n")
        p.stdin.flush()
        deadline = time.monotonic() + timeout
        while True:
            left = deadline - time.monotonic()
            if left <= 0:
                p.kill()
                raise NodeError("node timed out")
            rl, _, _ = select.select([p.stdout], [], [], min(left, 5))
            if rl:
                line = p.stdout.readline()
                if not line:
                    raise NodeError(f"node died (rc={p.poll()})")
                res = json.loads(line)
                if "harness_error" in res:
                    raise NodeError(res["harness_error"])
                return res["ok"]

    def call(self, hs, req, timeout=180):
        self.calls += 1
        p = self.procs.get(hs)
        if p is None or p.poll() is not None:
            p = self._start(hs)
        return self._roundtrip(p, req, timeout)

    def call_fresh(self, hs, req, timeout=300):
        """Execute in a brand-new interpreter (no zygote, no fork)."""
        self.fresh_calls += 1
        p = subprocess.run(
            [sys.executable, "-m", "bcsim.node", "--once"], cwd=VERIF, env=_env(hs), input=json.dumps(req),
            capture_output=True, text=True, timeout=timeout,
        )
        if p.returncode != 0 or not p.stdout.strip():
            raise NodeError(f"fresh node failed rc={p.returncode}: {p.stderr[-1500:]}")
        res = json.loads(p.stdout.strip().splitlines()[-1])
        if "harness_error" in res:
            raise NodeError(res["harness_error"])
        return res["ok"]

    def close(self):
        for p in self.procs.values():
            try:
                p.stdin.close()
            except Exception:
                pass
        for p in self.procs.values():
            try:
                p.wait(timeout=5)
            except Exception:
                p.kill()
        self.procs = {}


_NODES = None


def nodes():
    global _NODES
    if _NODES is None:
        _NODES = Nodes()
    return _NODES


def close_nodes():
    global _NODES
    if _NODES is not None:
        _NODES.close()
        _NODES = None


if __name__ == "__main__":
    if "--once" in sys.argv:
        once()
    else:
        serve()
