"""Operation registry for the history simulator (C10).

One row per public attribute / method of each object kind.  The registry knows *how to call* an operation and *what
kind of arguments* it takes (names resolved by bcsim.plan from the object's spec); it never knows what the right
answer is.  ``result`` names the kind of a stored result (so later steps can interrogate derived objects).
"""
import pickle
import warnings


class Op:
    __slots__ = ("name", "call", "args", "kwargs", "result", "weight", "how")

    def __init__(self, name, how, target, args=(), kwargs=None, result=None, weight=1.0):
        self.name = name
        self.how = how  # "attr" | "call" | "special"
        self.call = target
        self.args = tuple(args)
        self.kwargs = dict(kwargs or {})
        self.result = result
        self.weight = weight


def A(name, result=None, weight=1.0):
    return Op(name, "attr", name, result=result, weight=weight)


def M(name, *args, result=None, weight=1.0, alias=None, **kwargs):
    return Op(alias or name, "call", name, args=args, kwargs=kwargs, result=result, weight=weight)


def S(name, fn, *args, result=None, weight=1.0, **kwargs):
    return Op(name, "special", fn, args=args, kwargs=kwargs, result=result, weight=weight)


# ---- specials ---------------------------------------------------------------------------------------------------


def _hash(o):
    return hash(o)


def _str(o):
    return str(o)


def _repr(o):
    return repr(o)


def _len(o):
    return len(o)


def _eq(o, other):
    return [o == other, other == o, o != other]


def _hash_eq(o, other):
    return hash(o) == hash(other)


def _child(o, i):
    kids = list(o.iter_children())
    return kids[i % len(kids)]


def _getitem_slice(o, a, b):
    return o[a:b]


def _getitem_int(o, i):
    return o[i]


def _pickle_roundtrip(o):
    return pickle.loads(pickle.dumps(o))


def _scan_codon_locations_deprecated(o):
    with warnings.catch_warnings():
        warnings.simplefilter("ignore")
        return o.scan_codon_locations()


def _scan_windows(o, w, s, p):
    return o.scan_windows(w, s, p)


def _iter(o):
    return iter(o)


def _lt(o, other):
    return o < other


def _to_gff_str(o, *args, **kwargs):
    # lazy on purpose: to_gff() is a generator; invoke() drains it unless the step asks for a cursor
    for r in o.to_gff(*args, **kwargs):
        yield str(r)


def _export_qualifiers_with_parent(o, pq):
    # parent qualifiers as the library passes them between levels: dict of sets
    return o.export_qualifiers(pq)  # pq: dict of sets built by the plan interpreter, so that a change to it is seen


def _construct_frames(o, frame):
    from inscripta.biocantor.gene.cds import CDSInterval

    return CDSInterval.construct_frames_from_location(o, frame)


def _from_dict_roundtrip(o):
    return type(o).from_dict(o.to_dict())


def _parent_of(o):
    return o.parent


def _as_parent_location(o):
    """What seq_chunk_to_parent / Sequence.reverse_complement do with a location: describe a child placed here."""
    from inscripta.biocantor.parent.parent import Parent

    return Parent(location=o)


def _tx_from_location(o):
    from inscripta.biocantor.gene.transcript import TranscriptInterval

    fn = TranscriptInterval.from_chunk_relative_location if o.has_ancestor_of_type("sequence_chunk") else TranscriptInterval.from_location
    return fn(o, transcript_id="from_loc")


def _feature_from_location(o):
    from inscripta.biocantor.gene.feature import FeatureInterval

    fn = FeatureInterval.from_chunk_relative_location if o.has_ancestor_of_type("sequence_chunk") else FeatureInterval.from_location
    return fn(o, feature_name="from_loc", feature_types=["x"])


def _cds_from_location(o, frame):
    from inscripta.biocantor.gene.cds import CDSInterval

    frames = CDSInterval.construct_frames_from_location(o, frame)
    fn = CDSInterval.from_chunk_relative_location if o.has_ancestor_of_type("sequence_chunk") else CDSInterval.from_location
    return fn(o, frames)


def _liftover_static(o, parent):
    from inscripta.biocantor.gene.interval import AbstractInterval

    return AbstractInterval.liftover_location_to_seq_chunk_parent(o, parent)


def _compare(o, other):
    return o.compare(other)


COMMON_INTERVAL = [
    S("__len__", _len),
    S("__hash__", _hash, weight=0.7),
    S("__str__", _str, weight=0.7),
    S("__repr__", _repr, weight=0.5),
    M("to_dict", weight=2.5),
    M("to_dict", "bool", alias="to_dict(crc)", weight=1.0),
    A("is_chunk_relative"),
    A("chunk_relative_size"),
    A("has_sequence"),
    A("id", weight=0.4),
    A("name", weight=0.4),
    A("chunk_relative_start"),
    A("chunk_relative_end"),
    A("chromosome_location", result="location", weight=1.5),
    A("chunk_relative_location", result="location", weight=1.5),
    A("blocks"),
    A("num_blocks"),
    A("num_chunk_relative_blocks"),
    A("chunk_relative_blocks"),
    A("strand"),
    A("chunk_relative_strand"),
    A("identifiers", weight=0.5),
    A("identifiers_dict", weight=0.5),
    M("has_ancestor_of_type", "seqtype"),
    M("first_ancestor_of_type", "seqtype", result="parent"),
    M("lift_over_to_first_ancestor_of_type", "seqtype", result="location"),
    M("liftover_to_parent_or_seq_chunk_parent", "parentobj", weight=0.7),
    A("guid", weight=1.5),
    A("start", weight=0.4),
    A("end", weight=0.4),
    A("qualifiers", weight=1.5),
    A("sequence_name", weight=0.3),
    S("__eq__", _eq, "twin", weight=1.5),
    S("hash==twin", _hash_eq, "twin", weight=1.0),
    S("from_dict(to_dict)", _from_dict_roundtrip, weight=0.6),
]

FEATURE_INTERVAL_COMMON = COMMON_INTERVAL + [
    A("chromosome_span", result="location"),
    A("chromosome_gaps_location", result="location"),
    A("chunk_relative_span", result="location"),
    A("chunk_relative_gaps_location", result="location"),
    A("is_primary_feature", weight=0.4),
    A("relative_blocks"),
    M("sequence_pos_to_feature", "cpos"),
    M("sequence_interval_to_feature", "cint"),
    M("feature_pos_to_sequence", "rpos"),
    M("feature_interval_to_sequence", "rint"),
    M("chunk_relative_pos_to_feature", "kpos"),
    M("chunk_relative_interval_to_feature", "kint"),
    M("feature_pos_to_chunk_relative", "rpos"),
    M("feature_interval_to_chunk_relative", "rint"),
    M("get_spliced_sequence", result="sequence", weight=1.5),
    M("get_reference_sequence", result="sequence"),
    M("get_genomic_sequence", result="sequence"),
    M("export_qualifiers", weight=2.0),
    S("export_qualifiers(parent)", _export_qualifiers_with_parent, "pquals", weight=2.0),
]

GFF_BED = [
    S("to_gff", _to_gff_str, weight=2.5),
    S("to_gff(parent,pq)", _to_gff_str, "gffparent", "pquals_sets", "bool", weight=2.0),
    M("to_bed12", weight=1.5),
    M("to_bed12", "score", "rgb", "bedname", "bool", alias="to_bed12(args)", weight=1.0),
]

TRANSCRIPT_OPS = FEATURE_INTERVAL_COMMON + GFF_BED + [
    A("is_primary_tx", weight=0.4),
    A("cds_location", result="location"),
    A("cds_chunk_relative_location", result="location"),
    A("chromosome_intron_location", result="location"),
    A("chunk_relative_intron_location", result="location"),
    A("is_coding"),
    A("has_in_frame_stop"),
    A("cds_size"),
    A("chunk_relative_cds_size"),
    A("cds_start"),
    A("cds_end"),
    A("chunk_relative_cds_start"),
    A("chunk_relative_cds_end"),
    A("cds_blocks"),
    A("chunk_relative_cds_blocks"),
    A("cds", result="cds", weight=2.0),
    A("transcript_type", weight=0.3),
    M("intersect", "loc", result="transcript"),
    M("sequence_pos_to_transcript", "cpos"),
    M("chunk_relative_pos_to_transcript", "kpos"),
    M("sequence_interval_to_transcript", "cint"),
    M("chunk_relative_interval_to_transcript", "kint"),
    M("transcript_pos_to_sequence", "rpos"),
    M("transcript_pos_to_chunk_relative", "rpos"),
    M("transcript_interval_to_sequence", "rint"),
    M("transcript_interval_to_chunk_relative", "rint"),
    M("cds_pos_to_sequence", "cdspos"),
    M("cds_pos_to_chunk_relative", "cdspos"),
    M("cds_interval_to_sequence", "cdsint"),
    M("cds_interval_to_chunk_relative", "cdsint"),
    M("sequence_pos_to_cds", "cpos"),
    M("chunk_relative_pos_to_cds", "kpos"),
    M("sequence_interval_to_cds", "cint"),
    M("chunk_relative_interval_to_cds", "kint"),
    M("cds_pos_to_transcript", "cdspos"),
    M("transcript_pos_to_cds", "rpos"),
    M("get_5p_interval", result="location"),
    M("get_3p_interval", result="location"),
    M("get_transcript_sequence", result="sequence"),
    M("get_cds_sequence", result="sequence", weight=1.5),
    M("get_protein_sequence", result="sequence", weight=1.5),
    M("get_protein_sequence", "bool", "table", alias="get_protein_sequence(args)", weight=2.5),
    M("incorporate_variants", "ref:variants", result="transcript", weight=1.5),
]

CDS_OPS = FEATURE_INTERVAL_COMMON + [
    S("to_gff", _to_gff_str, weight=2.0),
    S("to_gff(parent,pq)", _to_gff_str, "gffparent", "pquals_sets", "bool", weight=1.5),
    A("frames"),
    A("chunk_relative_frames"),
    A("has_canonical_start_codon"),
    M("has_start_codon_in_specific_translation_table", "table"),
    A("has_valid_stop", weight=2.0),
    M("extract_sequence", result="sequence", weight=3.0),
    A("num_codons", weight=1.5),
    A("num_chunk_relative_codons", weight=1.5),
    M("scan_codons", weight=1.5),
    M("scan_codons", "bool", alias="scan_codons(trunc)"),
    A("chunk_relative_codon_locations", weight=3.0),
    A("chromosome_codon_locations", weight=2.0),
    M("scan_chunk_relative_codon_locations", "window", weight=3.0),
    M("scan_chromosome_codon_locations", "window", weight=3.0),
    S("scan_codon_locations", _scan_codon_locations_deprecated),
    M("translate", weight=2.0),
    M("translate", "bool", "table", "bool", alias="translate(args)", weight=4.0),
    A("has_in_frame_stop", weight=1.5),
    M("optimize_blocks", result="cds"),
    M("optimize_and_combine_blocks", result="cds"),
    M("cds_pos_to_sequence", "cdspos"),
    M("cds_pos_to_chunk_relative", "cdspos"),
    M("cds_interval_to_sequence", "cdsint"),
    M("cds_interval_to_chunk_relative", "cdsint"),
    M("sequence_pos_to_cds", "cpos"),
    M("chunk_relative_pos_to_cds", "kpos"),
    M("sequence_interval_to_cds", "cint"),
    M("chunk_relative_interval_to_cds", "kint"),
    M("sequence_pos_to_amino_acid", "cpos"),
    M("incorporate_variants", "ref:variants", result="cds", weight=0.8),
]

FEATURE_OPS = FEATURE_INTERVAL_COMMON + GFF_BED + [
    A("feature_types"),
    A("is_coding", weight=0.3),
    A("has_in_frame_stop", weight=0.3),
    A("cds_start", weight=0.2),
    A("cds_location", weight=0.2),
    M("intersect", "loc", result="feature"),
    M("incorporate_variants", "ref:variants", result="feature", weight=0.8),
]

VARIANT_OPS = [
    S("__len__", _len),
    S("__hash__", _hash, weight=0.7),
    S("__str__", _str, weight=0.7),
    M("to_dict", weight=2.0),
    M("to_dict", "bool", alias="to_dict(crc)"),
    A("is_chunk_relative"),
    A("has_sequence"),
    A("chromosome_location", result="location"),
    A("chunk_relative_location", result="location"),
    A("blocks"),
    A("strand"),
    A("guid"),
    A("qualifiers"),
    A("identifiers"),
    A("sequence"),
    M("export_qualifiers"),
    A("alternative_genomic_sequence", result="sequence", weight=2.0),
    A("parent_with_alternative_sequence", result="parent", weight=2.0),
    A("length_difference"),
    M("lift_over_location", "loc_chrom", result="location", weight=3.0),
    M("get_spliced_sequence", result="sequence"),
    M("get_reference_sequence", result="sequence"),
    M("get_genomic_sequence", result="sequence"),
    S("__eq__", _eq, "twin"),
    A("chromosome_span", result="location"),
    A("chromosome_gaps_location", result="location"),
    A("chunk_relative_span", result="location"),
    A("chunk_relative_blocks"),
    A("chunk_relative_start"),
    A("chunk_relative_end"),
    A("chunk_relative_size"),
    M("sequence_pos_to_feature", "cpos"),
    M("feature_pos_to_sequence", "rpos"),
    M("chunk_relative_pos_to_feature", "kpos"),
    M("feature_interval_to_sequence", "rint"),
    M("feature_interval_to_chunk_relative", "rint"),
    M("has_ancestor_of_type", "seqtype"),
    M("first_ancestor_of_type", "seqtype", result="parent"),
    M("lift_over_to_first_ancestor_of_type", "seqtype", result="location"),
    M("liftover_to_parent_or_seq_chunk_parent", "parentobj", weight=0.7),
    A("identifiers_dict", weight=0.4),
    A("is_primary_feature", weight=0.3),
    S("from_dict(to_dict)", _from_dict_roundtrip, weight=0.8),
    S("hash==twin", _hash_eq, "twin"),
]

COLLECTION_COMMON = [
    S("__len__", _len),
    S("__hash__", _hash, weight=0.7),
    S("__repr__", _repr, weight=0.5),
    M("to_dict", weight=2.5),
    M("to_dict", "bool", alias="to_dict(crc)"),
    A("is_chunk_relative"),
    A("chunk_relative_size"),
    A("has_sequence"),
    A("id", weight=0.4),
    A("name", weight=0.4),
    A("chromosome_location", result="location"),
    A("chunk_relative_location", result="location"),
    A("blocks"),
    A("num_blocks"),
    A("strand"),
    A("identifiers", weight=0.5),
    A("identifiers_dict", weight=0.5),
    M("has_ancestor_of_type", "seqtype"),
    M("lift_over_to_first_ancestor_of_type", "seqtype", result="location"),
    A("guid", weight=1.5),
    A("start", weight=0.4),
    A("end", weight=0.4),
    A("bin", weight=0.3),
    A("qualifiers", weight=1.5),
    A("children_guids"),
    M("iter_children"),
    S("iter", _iter),
    M("get_reference_sequence", result="sequence"),
    S("__eq__", _eq, "twin", weight=1.5),
    S("hash==twin", _hash_eq, "twin"),
    S("from_dict(to_dict)", _from_dict_roundtrip, weight=0.6),
    S("child", _child, "childidx", result="child", weight=3.0),
    M("liftover_to_parent_or_seq_chunk_parent", "parentobj", weight=0.7),
    A("chunk_relative_blocks"),
    A("chunk_relative_start"),
    A("chunk_relative_end"),
    A("chunk_relative_strand"),
    A("num_chunk_relative_blocks"),
    M("first_ancestor_of_type", "seqtype", result="parent"),
    A("sequence_name", weight=0.3),
]

GENE_OPS = COLLECTION_COMMON + [
    A("transcripts"),
    A("is_coding"),
    A("primary_transcript"),
    M("get_primary_transcript", result="transcript"),
    M("get_primary_cds", result="cds"),
    M("get_primary_transcript_sequence", result="sequence"),
    M("get_primary_feature"),
    M("get_primary_feature_sequence"),
    M("get_primary_cds_sequence", result="sequence"),
    M("get_primary_protein", result="sequence", weight=1.5),
    M("get_merged_feature", result="feature"),
    M("get_merged_transcript", result="feature", weight=1.5),
    M("get_merged_cds", result="feature", weight=1.5),
    M("export_qualifiers", weight=2.5),
    M("query_by_guids", "guids:children", result="gene", weight=1.5),
    S("to_gff", _to_gff_str, weight=3.0),
    S("to_gff(args)", _to_gff_str, "bool", "bool", weight=1.5),
    M("incorporate_variants", "ref:variants", result="gene", weight=2.5),
    A("guid_map", weight=0.5),
]

FEATURE_COLLECTION_OPS = COLLECTION_COMMON + [
    A("feature_intervals"),
    A("is_coding"),
    A("feature_types"),
    A("primary_feature"),
    M("get_primary_feature", result="feature"),
    M("get_primary_feature_sequence", result="sequence"),
    M("get_merged_feature", result="feature", weight=1.5),
    M("export_qualifiers", weight=2.5),
    M("query_by_guids", "guids:children", result="feature_collection", weight=1.5),
    S("to_gff", _to_gff_str, weight=3.0),
    S("to_gff(args)", _to_gff_str, "bool", "bool", weight=1.5),
    M("incorporate_variants", "ref:variants", result="feature_collection", weight=2.5),
]

VARIANT_COLLECTION_OPS = [
    S("__len__", _len),
    S("__hash__", _hash, weight=0.7),
    S("__repr__", _repr, weight=0.5),
    M("to_dict", weight=2.0),
    A("has_sequence"),
    A("chromosome_location", result="location"),
    A("chunk_relative_location", result="location"),
    A("guid"),
    A("qualifiers"),
    A("children_guids"),
    A("variant_types"),
    A("variant_intervals"),
    M("iter_children"),
    S("child", _child, "childidx", result="child", weight=2.0),
    A("alternative_genomic_sequence", result="sequence", weight=2.0),
    A("parent_with_alternative_sequence", result="parent", weight=2.0),
    M("lift_over_location", "loc_chrom", result="location", weight=3.0),
    M("query_by_guids", "guids:children", result="variant_collection"),
    S("__eq__", _eq, "twin"),
    S("hash==twin", _hash_eq, "twin"),
    S("from_dict(to_dict)", _from_dict_roundtrip, weight=0.8),
    A("blocks"),
    A("strand"),
    A("num_blocks"),
    A("is_chunk_relative"),
    A("chunk_relative_size"),
    A("chunk_relative_start"),
    A("chunk_relative_end"),
    A("identifiers", weight=0.4),
    A("id", weight=0.3),
    A("name", weight=0.3),
    M("has_ancestor_of_type", "seqtype"),
    M("first_ancestor_of_type", "seqtype", result="parent"),
    M("lift_over_to_first_ancestor_of_type", "seqtype", result="location"),
    M("get_reference_sequence", result="sequence"),
    M("liftover_to_parent_or_seq_chunk_parent", "parentobj", weight=0.7),
]

ANNOTATION_COLLECTION_OPS = COLLECTION_COMMON + [
    A("is_empty"),
    A("hierarchical_children_guids"),
    A("interval_guids_to_collections", weight=0.7),
    A("children"),
    A("non_variant_children"),
    M("iter_non_variant_children"),
    A("genes", weight=0.5),
    A("feature_collections", weight=0.5),
    A("variant_collections", weight=0.5),
    A("sequence", weight=0.5),
    A("alternative_haplotype_mapping", weight=0.7),
    M("to_dict", "bool", "bool", alias="to_dict(crc,parent)", weight=2.0),
    M("query_by_position", "qpos", result="collection", weight=5.0),
    M("query_by_guids", "guids:children", result="collection", weight=1.5),
    M("query_by_interval_guids", "guids:grandchildren", result="collection", weight=1.5),
    M("query_by_transcript_interval_guids", "guids:grandchildren", result="collection"),
    M("query_by_feature_interval_guids", "guids:grandchildren", result="collection"),
    M("query_by_feature_identifiers", "idents", result="collection", weight=1.5),
    M("get_children_by_type", "childtype"),
    S("to_gff", _to_gff_str, weight=3.5),
    S("to_gff(args)", _to_gff_str, "bool", "bool", weight=1.5),
    M("incorporate_variants", "ref:variants", result="collection", weight=2.5),
    S("pickle", _pickle_roundtrip, result="collection", weight=1.5),
]

LOCATION_OPS = [
    S("__len__", _len),
    S("__hash__", _hash),
    S("__str__", _str),
    S("__repr__", _repr, weight=0.5),
    A("start"),
    A("end"),
    A("strand"),
    A("parent", result="parent", weight=1.5),
    A("parent_id"),
    A("parent_type"),
    A("is_contiguous"),
    A("is_empty"),
    A("blocks", weight=2.0),
    M("scan_blocks"),
    A("num_blocks"),
    A("is_overlapping", weight=1.5),
    M("optimize_blocks", result="location"),
    M("optimize_and_combine_blocks", result="location"),
    M("gap_list"),
    M("gaps_location", result="location"),
    M("extract_sequence", result="sequence", weight=3.0),
    M("parent_to_relative_pos", "lpos"),
    M("relative_to_parent_pos", "lrpos"),
    M("relative_interval_to_parent_location", "lrint", result="location"),
    M("parent_to_relative_location", "loc", result="location", weight=1.5),
    M("parent_to_relative_location", "ref:location", alias="parent_to_relative_location(ref)", result="location"),
    M("location_relative_to", "loc", result="location"),
    M("has_overlap", "loc", "bool", "bool", weight=1.5),
    M("has_overlap", "ref:location", alias="has_overlap(ref)"),
    M("contains", "loc", "bool", "bool"),
    M("reverse", result="location"),
    M("reverse_strand", result="location"),
    M("reset_strand", "strand", result="location"),
    M("reset_parent", "parentobj_or_none", result="location", weight=1.5),
    M("shift_position", "shift", result="location"),
    M("distance_to", "loc", "dist"),
    M("intersection", "loc", "bool", "bool", result="location", weight=2.0),
    M("intersection", "ref:location", alias="intersection(ref)", result="location"),
    M("union", "loc", result="location", weight=1.5),
    M("union", "ref:location", alias="union(ref)", result="location"),
    M("union_preserve_overlaps", "loc", result="location"),
    M("minus", "loc", "bool", result="location", weight=1.5),
    M("minus", "ref:location", alias="minus(ref)", result="location"),
    M("extend_absolute", "smallint", "smallint", result="location"),
    M("extend_relative", "smallint", "smallint", result="location"),
    M("merge_overlapping", result="location"),
    M("to_biopython"),
    S("scan_windows", _scan_windows, "win", "win", "smallint"),
    M("first_ancestor_of_type", "seqtype", result="parent"),
    M("has_ancestor_of_type", "seqtype"),
    M("lift_over_to_first_ancestor_of_type", "seqtype", result="location", weight=3.0),
    M("has_ancestor_sequence", "ref:sequence"),
    M("lift_over_to_sequence", "ref:sequence", result="location"),
    S("__eq__", _eq, "twin", weight=1.5),
    S("hash==twin", _hash_eq, "twin"),
    S("__eq__(ref)", _eq, "ref:location"),
    S("construct_frames_from_location", _construct_frames, "frame"),
    S("Parent(location=self)", _as_parent_location, result="parent", weight=1.5),
    A("length", weight=0.4),
    S("compare", _compare, "loc", weight=0.6),
    S("TranscriptInterval.from_location", _tx_from_location, result="transcript", weight=1.2),
    S("FeatureInterval.from_location", _feature_from_location, result="feature", weight=1.0),
    S("CDSInterval.from_location", _cds_from_location, "frame", result="cds", weight=1.2),
    S("liftover_location_to_seq_chunk_parent", _liftover_static, "parentobj", result="location", weight=1.5),
]

PARENT_OPS = [
    S("__hash__", _hash),
    S("__repr__", _repr),
    A("id"),
    A("sequence_type"),
    A("strand", weight=3.0),
    A("location", result="location", weight=2.0),
    A("sequence", result="sequence", weight=2.0),
    A("parent", result="parent", weight=2.0),
    M("strip_location_info", result="parent", weight=2.0),
    M("first_ancestor_of_type", "seqtype", result="parent"),
    M("first_ancestor_of_type", "seqtype", "bool", alias="first_ancestor_of_type(self)", result="parent"),
    M("has_ancestor_of_type", "seqtype"),
    M("has_ancestor_of_type", "seqtype", "bool", alias="has_ancestor_of_type(self)"),
    M("lift_child_location_to_parent", result="location", weight=2.0),
    M("reset_location", "loc_noparent", result="parent", weight=2.0),
    M("has_ancestor_sequence", "ref:sequence"),
    M("equals_except_location", "ref:parent"),
    M("equals_except_location", "ref:parent", "bool", alias="equals_except_location(seq)"),
    S("__eq__", _eq, "twin", weight=1.5),
    S("hash==twin", _hash_eq, "twin"),
    S("__eq__(ref)", _eq, "ref:parent"),
]

SEQUENCE_OPS = [
    S("__len__", _len),
    S("__hash__", _hash),
    S("__str__", _str, weight=2.0),
    S("__repr__", _repr, weight=0.5),
    M("summary"),
    A("id"),
    A("alphabet"),
    A("sequence_type"),
    A("parent", result="parent", weight=2.0),
    A("parent_id"),
    A("is_empty"),
    A("location_on_parent", result="location", weight=2.0),
    A("parent_strand"),
    A("parent_type"),
    M("reverse_complement", result="sequence", weight=2.0),
    M("reverse_complement", "optstr", "optstr", alias="reverse_complement(args)", result="sequence"),
    M("append", "ref:sequence", result="sequence"),
    M("append", "ref:sequence", "optstr", "bool", alias="append(args)", result="sequence"),
    M("first_ancestor_of_type", "seqtype", result="parent"),
    M("has_ancestor_of_type", "seqtype"),
    M("to_fasta"),
    M("to_fasta", "fastawidth", alias="to_fasta(n)"),
    S("getitem_slice", _getitem_slice, "sslice", result="sequence", weight=3.0),
    S("getitem_int", _getitem_int, "sidx", result="sequence"),
    S("__eq__", _eq, "twin", weight=1.5),
    S("hash==twin", _hash_eq, "twin"),
    S("__eq__(ref)", _eq, "ref:sequence"),
]

# ---- containers built from ready-made (live) children: what another caller does with the objects a first caller
# still holds.  The new container is given the parent the children already live on (or none): a constructor that is
# handed ANOTHER parent re-parents its children in place - that is the documented ownership contract of the
# constructors (interval.py, _reset_parent), not an "operation" in the sense of the property, and is not asked here.


def _own_parent(o, keep):
    return o._parent_or_seq_chunk_parent if keep else None


def _regroup_gene(o, keep):
    from inscripta.biocantor.gene.gene import GeneInterval

    return GeneInterval(transcripts=list(o.transcripts), gene_id="regrouped", gene_type=o.gene_type, sequence_name=o.sequence_name,
                        parent_or_seq_chunk_parent=_own_parent(o, keep))


def _regroup_gene_reversed(o, keep):
    from inscripta.biocantor.gene.gene import GeneInterval

    return GeneInterval(transcripts=list(o.transcripts)[::-1], gene_id="regrouped", gene_type=o.gene_type, sequence_name=o.sequence_name,
                        parent_or_seq_chunk_parent=_own_parent(o, keep))


def _regroup_fc_reversed(o, keep):
    from inscripta.biocantor.gene.feature import FeatureIntervalCollection

    return FeatureIntervalCollection(feature_intervals=list(o.feature_intervals)[::-1], feature_collection_id="regrouped", sequence_name=o.sequence_name,
                                     parent_or_seq_chunk_parent=_own_parent(o, keep))


def _gene_of_transcript(o, keep):
    from inscripta.biocantor.gene.gene import GeneInterval

    return GeneInterval(transcripts=[o], gene_id="solo", sequence_name=o.sequence_name, parent_or_seq_chunk_parent=_own_parent(o, keep))


def _regroup_fc(o, keep):
    from inscripta.biocantor.gene.feature import FeatureIntervalCollection

    return FeatureIntervalCollection(feature_intervals=list(o.feature_intervals), feature_collection_id="regrouped", sequence_name=o.sequence_name,
                                     parent_or_seq_chunk_parent=_own_parent(o, keep))


def _fc_of_feature(o, keep):
    from inscripta.biocantor.gene.feature import FeatureIntervalCollection

    return FeatureIntervalCollection(feature_intervals=[o], feature_collection_id="solo", sequence_name=o.sequence_name, parent_or_seq_chunk_parent=_own_parent(o, keep))


def _recollect(o, keep):
    from inscripta.biocantor.gene.collections import AnnotationCollection

    return AnnotationCollection(genes=list(o.genes) or None, feature_collections=list(o.feature_collections) or None,
                                variant_collections=list(o.variant_collections) or None, sequence_name=o.sequence_name, name="recollected",
                                parent_or_seq_chunk_parent=_own_parent(o, keep))



# ---- file exports as operations of a history (C10: "export operations leave every operand unchanged" and the text they
# write must not depend on what was asked before).  The writers get an in-memory handle; the answer is the text.


def _gb_canon(text):
    """GenBank text with the qualifier lines of each feature sorted: the writer emits multi-valued qualifiers in set
    order (legitimately different between two sets with equal content but another insertion history)."""
    out, cur = [], None
    for line in text.split("\n"):
        if line.startswith("     ") and not line.startswith("      "):
            if cur is not None:
                out.append(cur)
            cur = [line, []]
        elif cur is not None and line.startswith("      "):
            cur[1].append(line)
        else:
            if cur is not None:
                out.append(cur)
                cur = None
            out.append(line)
    if cur is not None:
        out.append(cur)
    return [x if isinstance(x, str) else [x[0], sorted(x[1])] for x in out]


def _export_gff3(o, add_sequences, chrom_rel):
    import io
    from inscripta.biocantor.io.gff3.writer import collection_to_gff3

    h = io.StringIO()
    collection_to_gff3([o], h, add_sequences=add_sequences, chromosome_relative_coordinates=chrom_rel)
    return h.getvalue()


def _export_genbank(o, euk, translations):
    import io
    from inscripta.biocantor.io.genbank.writer import collection_to_genbank, GenbankFlavor

    h = io.StringIO()
    collection_to_genbank([o], h, genbank_type=GenbankFlavor.EUKARYOTIC if euk else GenbankFlavor.PROKARYOTIC, update_translations=translations)
    return _gb_canon(h.getvalue())


def _export_tbl(o, euk, table11):
    import io
    from inscripta.biocantor.io.ncbi.tbl_writer import collection_to_tbl
    from inscripta.biocantor.io.genbank.constants import GenbankFlavor
    from inscripta.biocantor.gene.codon import TranslationTable

    h = io.StringIO()
    collection_to_tbl([o], h, translation_table=TranslationTable.PROKARYOTE if table11 else TranslationTable.DEFAULT, locus_tag_prefix="LT",
                      genbank_flavor=GenbankFlavor.EUKARYOTIC if euk else GenbankFlavor.PROKARYOTIC, submitter_lab_name="lab", random_seed=7)
    return h.getvalue()


def _export_fasta(o):
    import io
    from inscripta.biocantor.io.fasta.fasta import collection_to_fasta

    h = io.StringIO()
    collection_to_fasta([o], h)
    return h.getvalue()


def _model_roundtrip(o):
    import json
    from inscripta.biocantor.io.models import AnnotationCollectionModel

    text = json.dumps(AnnotationCollectionModel.Schema().dump(AnnotationCollectionModel.from_annotation_collection(o)))
    return AnnotationCollectionModel.Schema().loads(text).to_annotation_collection(o._parent_or_seq_chunk_parent)


def _genbank_roundtrip(o, euk, mode):
    import io
    from inscripta.biocantor.io.genbank.writer import collection_to_genbank, GenbankFlavor
    from inscripta.biocantor.io.genbank.parser import parse_genbank, GenBankParserType

    h = io.StringIO()
    collection_to_genbank([o], h, genbank_type=GenbankFlavor.EUKARYOTIC if euk else GenbankFlavor.PROKARYOTIC)
    recs = list(parse_genbank(io.StringIO(h.getvalue()), gbk_type=[GenBankParserType.SORTED, GenBankParserType.LOCUS_TAG, GenBankParserType.HYBRID][mode % 3]))
    return recs[0].to_annotation_collection()


class _FailingIO:
    """A text handle whose k-th write raises (the disk is full): the export must fail - and leave its operand alone."""

    def __init__(self, k):
        self.k, self.n, self.parts = k, 0, []

    def write(self, s):
        self.n += 1
        if self.n >= self.k:
            raise OSError(28, "No space left on device")
        self.parts.append(s)
        return len(s)

    def flush(self):
        pass


def _export_fault(o, which, flag_a, flag_b, k):
    """One of the file exports into a handle that fails part-way (header, rows, FASTA section or the very last write).
    Answer: how many writes succeeded before the failure + the exception."""
    # where the disk fills up is relative to the size of the file: a fault-free export is counted first, then the same
    # export is repeated into a handle that fails at write number 1 + (k/5) * (writes - 1)  (k in 0..5: first ... last write)
    if k != "count":
        total = _export_fault(o, which, flag_a, flag_b, "count")
        if total[1] is not None:
            return ["refused", total[1]]
        h = _FailingIO(1 + (min(5, abs(int(k))) * max(0, total[0] - 1)) // 5)
    else:
        h = _FailingIO(10 ** 9)
    try:
        if which == "gff3":
            from inscripta.biocantor.io.gff3.writer import collection_to_gff3

            # (a collection on a chunk can only be exported with its sequence in chunk-relative coordinates)
            chrom_rel = (not getattr(o, "is_chunk_relative", False)) if flag_a else flag_b
            collection_to_gff3([o], h, add_sequences=flag_a, chromosome_relative_coordinates=chrom_rel)
        elif which == "genbank":
            from inscripta.biocantor.io.genbank.writer import collection_to_genbank, GenbankFlavor

            collection_to_genbank([o], h, genbank_type=GenbankFlavor.EUKARYOTIC if flag_a else GenbankFlavor.PROKARYOTIC, update_translations=flag_b)
        elif which == "tbl":
            from inscripta.biocantor.io.ncbi.tbl_writer import collection_to_tbl
            from inscripta.biocantor.io.genbank.constants import GenbankFlavor

            collection_to_tbl([o], h, locus_tag_prefix="LT", genbank_flavor=GenbankFlavor.EUKARYOTIC if flag_a else GenbankFlavor.PROKARYOTIC,
                              submitter_lab_name="lab", random_seed=7)
        else:
            from inscripta.biocantor.io.fasta.fasta import collection_to_fasta

            collection_to_fasta([o], h)
    except Exception as e:
        return [len(h.parts), type(e).__name__]
    return [len(h.parts), None]


def _export_gff3_fault(o, a, b, k):
    return _export_fault(o, "gff3", a, b, k)


def _export_genbank_fault(o, a, b, k):
    return _export_fault(o, "genbank", a, b, k)


def _export_tbl_fault(o, a, k):
    return _export_fault(o, "tbl", a, False, k)


def _export_fasta_fault(o, k):
    return _export_fault(o, "fasta", False, False, k)


def _gff3_roundtrip(o, fasta):
    import io
    import os
    from inscripta.biocantor.io.gff3.writer import collection_to_gff3
    from inscripta.biocantor.io.gff3.parser import parse_standard_gff3, parse_gff3_embedded_fasta

    h = io.StringIO()
    collection_to_gff3([o], h, add_sequences=fasta)
    path = f"/dev/shm/bcsim-c10-{os.getpid()}.gff3"  # gffutils wants a path; removed right after the parse
    try:
        with open(path, "w") as fh:
            fh.write(h.getvalue())
        recs = list((parse_gff3_embedded_fasta if fasta else parse_standard_gff3)(path))
    finally:
        if os.path.exists(path):
            os.unlink(path)
    return recs[0].to_annotation_collection()


ANNOTATION_COLLECTION_OPS += [
    S("gff3_roundtrip", _gff3_roundtrip, "bool", result="collection", weight=1.5),
    S("collection_to_gff3(disk full at write k)", _export_gff3_fault, "bool", "bool", "faultpos", weight=4.0),
    S("collection_to_genbank(disk full at write k)", _export_genbank_fault, "bool", "bool", "faultpos", weight=1.2),
    S("collection_to_tbl(disk full at write k)", _export_tbl_fault, "bool", "faultpos", weight=1.0),
    S("collection_to_fasta(disk full at write k)", _export_fasta_fault, "faultpos", weight=0.6),
    S("collection_to_gff3", _export_gff3, "bool", "bool", weight=2.0),
    S("collection_to_genbank", _export_genbank, "bool", "bool", weight=2.0),
    S("collection_to_tbl", _export_tbl, "bool", "bool", weight=2.0),
    S("collection_to_fasta", _export_fasta, weight=0.8),
    S("model_roundtrip", _model_roundtrip, result="collection", weight=1.2),
    S("genbank_roundtrip", _genbank_roundtrip, "bool", "smallint", result="collection", weight=1.5),
]

GENE_OPS += [S("GeneInterval(transcripts=self.transcripts)", _regroup_gene, "bool", result="gene", weight=1.2)]
GENE_OPS += [S("GeneInterval(transcripts=reversed(self.transcripts))", _regroup_gene_reversed, "bool", result="gene", weight=1.2)]
FEATURE_COLLECTION_OPS += [S("FeatureIntervalCollection(feature_intervals=reversed(self.feature_intervals))", _regroup_fc_reversed, "bool", result="feature_collection", weight=1.0)]
TRANSCRIPT_OPS += [S("GeneInterval(transcripts=[self])", _gene_of_transcript, "bool", result="gene", weight=1.0)]
FEATURE_COLLECTION_OPS += [S("FeatureIntervalCollection(feature_intervals=self.feature_intervals)", _regroup_fc, "bool", result="feature_collection", weight=1.2)]
FEATURE_OPS += [S("FeatureIntervalCollection(feature_intervals=[self])", _fc_of_feature, "bool", result="feature_collection", weight=1.0)]
ANNOTATION_COLLECTION_OPS += [S("AnnotationCollection(children=self.children)", _recollect, "bool", result="collection", weight=1.2)]

REGISTRY = {
    "transcript": TRANSCRIPT_OPS,
    "cds": CDS_OPS,
    "feature": FEATURE_OPS,
    "variant": VARIANT_OPS,
    "gene": GENE_OPS,
    "feature_collection": FEATURE_COLLECTION_OPS,
    "variant_collection": VARIANT_COLLECTION_OPS,
    "collection": ANNOTATION_COLLECTION_OPS,
    "location": LOCATION_OPS,
    "parent": PARENT_OPS,
    "sequence": SEQUENCE_OPS,
}

BY_NAME = {kind: {op.name: op for op in ops} for kind, ops in REGISTRY.items()}

CHILD_KIND = {
    "gene": "transcript",
    "feature_collection": "feature",
    "variant_collection": "variant",
    "collection": "any_child",
}


def invoke(kind, opname, obj, args, lazy=False):
    """Apply an operation; ``args`` are already resolved to live values.  The result of a generator/iterator is
    consumed to a list here so that evaluation (and its exceptions) happen inside the step - unless ``lazy``: then
    the iterator itself is returned and the caller (a cursor of the plan interpreter) steps it."""
    op = BY_NAME[kind][opname]
    with warnings.catch_warnings():
        warnings.simplefilter("ignore")
        if op.how == "attr":
            r = getattr(obj, op.call)
        elif op.how == "call":
            r = getattr(obj, op.call)(*args)
        else:
            r = op.call(obj, *args)
        if hasattr(r, "__next__") and not lazy:
            r = list(r)
    return r


def classify(obj):
    """Kind of a live value (for stored results whose declared kind is 'child'/'any_child' or may be None)."""
    n = type(obj).__name__
    return {
        "TranscriptInterval": "transcript",
        "CDSInterval": "cds",
        "FeatureInterval": "feature",
        "VariantInterval": "variant",
        "GeneInterval": "gene",
        "FeatureIntervalCollection": "feature_collection",
        "VariantIntervalCollection": "variant_collection",
        "AnnotationCollection": "collection",
        "SingleInterval": "location",
        "CompoundInterval": "location",
        "_EmptyLocation": "location",
        "Parent": "parent",
        "Sequence": "sequence",
    }.get(n)
