"""C10 - answers do not depend on call history; operations never change their operands.

Deterministic simulation of caller sessions on shared live objects with Parent-cache floods, memo thrash, GC and
seed-chosen interleavings; every answer is compared with the same expression evaluated alone in a pristine fork."""
import collections
import copy
import json
import os
import time

from bcsim import engine, judge, minimise
from bcsim import plan as planmod
from bcsim.ops import REGISTRY

PROP = "C10"
TIERS = {
    # runs, wall cap (s), hash seeds of the zygote
    "quick": dict(runs=1500, wall=900, hashseeds=[0]),
    "thorough": dict(runs=12000, wall=6 * 3600, hashseeds=[0, 1, 12345]),
}
_MEMO = None


def gen(seed, idx):
    rng = engine.rng_for(seed, PROP, idx)
    size = rng.choice([0, 1, 1, 2])
    p = planmod.gen_plan(rng, check=PROP, size=size)
    p["seed"] = seed
    p["run"] = idx
    return p


def run_one(item):
    global _MEMO
    seed, idx = item
    if _MEMO is None:
        _MEMO = judge.PristineMemo()
    p = gen(seed, idx)
    r = judge.run_plan(p, _MEMO)
    out = {
        "idx": idx,
        "digest": r["digest"],
        "plan_digest": engine.plan_digest({"objects": p["objects"], "steps": p["steps"]}),
        "stats": r["stats"],
        "findings": r["findings"],
        "pairs": r["pairs"],
    }
    return out


def run_batch(tier, seed, runs=None, wall=None):
    """One batch in the current interpreter (its PYTHONHASHSEED is the batch's hash seed)."""
    cfg = TIERS[tier]
    runs = runs or int(os.environ.get("VERIF_RUNS", "0")) or cfg["runs"]
    # every hash-seed batch of a tier explores its own range of histories (run indices do not overlap between batches)
    hs = os.environ.get("PYTHONHASHSEED", "0")
    seeds = [str(x) for x in cfg.get("hashseeds", [0])]
    off = seeds.index(hs) * runs if hs in seeds else 0
    items = [(seed, off + i) for i in range(runs)]
    t0 = time.time()
    res = engine.pool_map(run_one, items, wall_cap=wall or cfg["wall"])
    return {"results": [r for _, r in res], "wall": time.time() - t0, "hashseed": os.environ.get("PYTHONHASHSEED", "?")}


def _same_sig(plan, key):
    try:
        r = judge.run_plan(plan)
    except Exception:
        return False
    return any(judge.sig_key(f) == key for f in r["findings"])


def minimise_and_write(seed, idx, finding, hashseed, tier=None):
    key = judge.sig_key(finding)
    p = gen(seed, idx)
    small = minimise.minimise_plan(p, lambda q: _same_sig(q, key), planmod.normalize, max_tests=250)
    doc = {
        "check": PROP,
        "seed": seed,
        "run": idx,
        "hashseed": hashseed,
        "objects": small["objects"],
        "steps": small["steps"],
        "expect": {"inv": key[0], "kind": key[1], "op": key[2], "diff": key[3], "path": key[4]},
        "note": f"minimised from {len(p['steps'])} to {len(small['steps'])} steps; world={finding.get('world','')[:200]} pristine={finding.get('pristine','')[:200]}",
    }
    return engine.write_replay(PROP, doc)


def replay(doc):
    """Used by `vcheck replay`: returns (reproduced, findings)."""
    p = {"check": PROP, "objects": doc["objects"], "steps": doc["steps"]}
    r = judge.run_plan(p)
    exp = doc.get("expect")
    hit = [f for f in r["findings"] if exp is None or all(f.get(k) == v for k, v in exp.items())]
    return bool(hit), r["findings"]


def possible_pairs():
    return {k: len(v) * len(v) for k, v in REGISTRY.items()}


def aggregate(batches, tier, seed, t0):
    known = engine.load_known()
    stats = collections.Counter()
    pairs = collections.defaultdict(set)
    plan_digests = set()
    nontrivial = set()
    harness_errors = []
    groups = {}
    samples = []
    digest_all = []
    nruns = 0
    for b in batches:
        for r in b["results"]:
            nruns += 1
            if "__harness_error__" in r:
                harness_errors.append(r)
                continue
            for k, v in r["stats"].items():
                stats[k] += v
            for k, v in r["pairs"].items():
                pairs[k].update(tuple(x) for x in v)
            plan_digests.add(r["plan_digest"])
            s = r["stats"]
            fired = s["flood_evicting"] + s["gc"] + s["touch"] + (1 if s["shared_objects"] else 0)
            if s["compared"] >= 5 and fired > 0:
                nontrivial.add(r["plan_digest"])
            digest_all.append((b["hashseed"], r["idx"], r["digest"]))
            for f in r["findings"]:
                key = judge.sig_key(f)
                groups.setdefault(key, []).append((b["hashseed"], r["idx"], f))
    violations = []
    known_hits = collections.Counter()
    for key, insts in sorted(groups.items()):
        hs, idx, f = insts[0]
        k = engine.match_known(known, PROP, f)
        if k:
            known_hits[k["id"]] += len(insts)
        else:
            violations.append((key, hs, idx, f, len(insts)))
    return dict(stats=stats, pairs=pairs, plan_digests=plan_digests, nontrivial=nontrivial, harness_errors=harness_errors,
                violations=violations, known_hits=known_hits, known=known, nruns=nruns, digest_all=digest_all)


def sample_plans(seed, n=2):
    out = []
    for i in range(n):
        p = gen(seed, i)
        out.append({
            "run": i,
            "objects": {k: (v.get("kind") + (" <- " + v["from"] + "." + v["op"] if "from" in v else " (root spec)")) for k, v in p["objects"].items()},
            "schedule": [
                (f"s{s['s']}:{s['obj']}.{s['op']}({json.dumps(s.get('args'))[:60]})" + (f"->{s['store']}" if "store" in s else "")) if s["t"] == "call"
                + (f" [cursor {s['lazy']['cur']} take {s['lazy']['take']}]" if "lazy" in s else "") + (f" [resume {s['resume']['cur']} take {s['resume']['take']}]" if "resume" in s else "")
                else (f"FAULT flood({s['n']})" if s["t"] == "flood" else f"FAULT {s['t']}")
                for s in p["steps"][:40]
            ],
        })
    return out


def evidence(agg, tier, seed, wall, batches):
    st = agg["stats"]
    poss = possible_pairs()
    pair_cov = {k: {"seen": len(v), "possible": poss.get(k, 0)} for k, v in sorted(agg["pairs"].items())}
    runs_per_hour = agg["nruns"] / wall * 3600 if wall > 0 else 0
    coverage = {
        "evaluations": agg["nruns"],
        "distinct_nontrivial": len(agg["nontrivial"]),
        "rule": "one evaluation = one simulated history executed in a forked world. Plan styles (seed-chosen): focused chains 27%, "
                "covering walk of every operation of one kind 20%, repeat-op / query thrash 13%, cursor duel 6%, inheritance probe "
                "(all argument-less questions on X, up to 10 derivations, the stateful questions first on each) 12%, memo thrash on a CDS/transcript 8%, "
                "mixed 2-4 interleaved sessions 14%; on top of the history budget: spotlight sessions on roots with unusual book-keeping (cut by their "
                "chunk, overlapping CDS blocks, frameshift transcripts), table sessions on roots with a planted ORF, order twins / tie twins / spelling twins; "
                "echo steps (same question again) and lazily consumed iterator answers (cursor open/resume/drain) are woven in; a flood step creates "
                "distinct Parents AND distinct IUPAC codons. "
                "Every call's answer - or the slice of an iterator answer taken in that step - is compared with the same expression "
                "evaluated alone in a pristine fork (I1); operands' structural snapshot and the caller's argument values before/after "
                "(I2, operand changes confirmed observationally); end-state observation of every root (I3); one third of the questions asked of derived "
                "objects are also asked of a twin rebuilt by value in a process that never ran the derivation (I5). distinct = distinct sha256 of (object recipes, step list); non-trivial = "
                ">=5 compared answers AND at least one fault fired (flood that evicted, gc, foreign build) or an object "
                "interrogated by >=2 sessions.",
        "samples": sample_plans(seed),
        "distinct_plans": len(agg["plan_digests"]),
        "simulated_runs_per_hour": round(runs_per_hour),
        "seeds_per_hour": round(runs_per_hour),
        "simulated_time": "not applicable: the system has no timers or clocks; logical steps = operations executed",
        "logical_steps": st["steps"],
        "answers_compared_I1": st["compared"],
        "end_states_compared_I3": st["end_compared"],
        "faults_fired": {
            "flood": st["flood"], "flood_that_evicted": st["flood_evicting"], "parent_cache_evictions": st["evictions_total"],
            "gc": st["gc"], "foreign_build(touch)": st["touch"],
            "objects_shared_by_>=2_sessions": st["shared_objects"],
            "lazy_cursor_steps(an iterator answer opened, resumed or drained while other sessions ran in between)": st["lazy_steps"],
            "of_which_resumes": st["lazy_resumes"],
        },
        "reach_probes": {
            "calls_on_warm_object(memo filled)": st["warm_calls"], "calls_on_cold_object": st["cold_calls"],
            "answers_that_are_exceptions": st["raise_answers"], "silent_structural_changes(not observable)": st["silent_structural"],
            "tainted_skips": st["tainted_skips"], "undefined_object_skips": st["undef_skips"],
            "by_value_twin_skip_reasons(kind:deriving op:reason)": {k[10:]: v for k, v in sorted(st.items()) if k.startswith("twin_skip:")},
            "by_value_twin_answers_compared_I5": st["twin_compared"], "by_value_twin_skipped(rebuild not structurally equal / raised)": st["twin_skips"],
        },
        "ordered_op_pairs_on_one_object": pair_cov,
        "hash_seeds_of_zygotes": [b["hashseed"] for b in batches],
        "known_findings_hit": dict(agg["known_hits"]),
        "harness_errors": len(agg["harness_errors"]),
        "components_real": engine.REAL,
        "components_stub": engine.STUBS[:1],
        "repo_head": engine.repo_head(),
    }
    return coverage


ASSUMPTIONS = [
    "oracle = same expression evaluated once in a forked copy of the post-import process image (never 'the right answer')",
    "canonical form is structural over __slots__/__dict__ minus memo/lazy fields; Parent compared by effective strand",
    "no pre-emptive threading (the library documents no thread safety; C10 quantifies over call sequences)",
    "third-party drift shim bcsim/compat.py is loaded before the library",
]
