"""C08 - serialised forms round-trip; identifiers are deterministic functions of content.

Simulated system: a producer node (interpreter with hash seed a) builds a collection from one insertion order of its
set-like inputs, optionally uses it (warm memos), and leaves only *bytes* (dictionary form, schema JSON, pickle) on the
coordinator's simulated disk; it then ends.  A consumer node with another hash seed (a forked child of another zygote,
or a genuinely fresh interpreter) loads every form, and also builds the same content from another insertion order.
Oracles: identifiers equal at every level across nodes; every loaded form reports the same identifiers, dictionary
content, parent description and sequences as the producer; library equality/hash hold inside the consumer; a changed
coordinate / strand / frame changes the identifier of the interval and of all its ancestors."""
import base64
import collections
import copy
import json
import os
import pickle
import time

from bcsim import engine, node, specs

PROP = "C08"
TIERS = {
    "quick": dict(runs=640, wall=900, hashseeds=[0], node_seeds=[0, 1, 77, 4242], fresh_p=0.0),
    "thorough": dict(runs=12000, wall=6 * 3600, hashseeds=[0], node_seeds=[0, 1, 2, 3, 5, 7, 11, 13, 77, 101, 1234, 4242, 9999, 31337, 65537, 99991], fresh_p=0.01),
}
QUAL_VALS = specs.QUAL_VALS_PLAIN + ["café", "α-helix", "a;b", "k=v", "50%", "tab\there", "x,y", "  lead", "UPPER", "1e3", "True",
                                     # strings that look like values of another type (a lenient loader may re-type them)
                                     # values that differ only in case (ties under a case-insensitive sort)
                                     "Kinase", "kinase", "KINASE", "alpha", "Alpha", "true", "TRUE",
                                     "007", "+3", " 4", "1_0", "00", "-0", "1.0", "false", "None", "null", "nan", "0x1F", "1e-5", "٣"]
QUAL_KEYS = specs.QUAL_KEYS_PLAIN + ["Note", "gene_synonym", "über", "key with space"]

# ---------------------------------------------------------------------------------------------------------------
# generation (pure data)


def permute_sets(rng, spec):
    """Set-preserving permutation: order of qualifier keys, of values inside a key, of feature types."""
    s = copy.deepcopy(spec)

    def perm_q(d):
        q = d.get("qualifiers")
        if q:
            keys = list(q)
            rng.shuffle(keys)
            nq = {}
            for k in keys:
                v = list(q[k])
                rng.shuffle(v)
                nq[k] = v
            d["qualifiers"] = nq
        if d.get("feature_types"):
            ft = list(d["feature_types"])
            rng.shuffle(ft)
            d["feature_types"] = ft

    perm_q(s)
    for g in s.get("genes") or []:
        perm_q(g)
        for t in g["transcripts"]:
            perm_q(t)
    for c in s.get("feature_collections") or []:
        perm_q(c)
        for f in c["feature_intervals"]:
            perm_q(f)
    for c in s.get("variant_collections") or []:
        perm_q(c)
        for v in c["variant_intervals"]:
            perm_q(v)
    return s


def gen_case(seed, idx, tier="quick"):
    rng = engine.rng_for(seed, PROP, idx)
    cfg = TIERS[tier]
    if idx % 250 == 0:
        # the hand-written collision table (different contents made of the same numbers), in a node with a seed-chosen hash seed
        return {"collision_probes": True, "hs_a": rng.choice(cfg["node_seeds"])}
    quals = dict(keys=QUAL_KEYS, vals=QUAL_VALS, max_keys=3, p_none=0.25, typed_p=0.12)
    spec = specs.gen_collection(rng, L=rng.choice([40, 90, 200, 300]), n_genes=rng.randint(0, 3), n_fcs=rng.choice([0, 1, 1, 2]),
                                quals=quals, gene_kw=dict(max_tx=3, same_strand=rng.random() < 0.7), with_n=rng.random() < 0.1)
    if not spec["genes"] and not spec["feature_collections"]:
        spec["genes"] = [specs.gen_gene(rng, 0, len(spec["parent"]["genome"]["seq"]), idx="0", quals=quals)]
    par = spec["parent"]
    L = len(par["genome"]["seq"])
    if rng.random() < 0.4:
        lo, hi = (par["chunk"] if par["mode"] == "chunk" else (0, L))
        if hi - lo > 10:
            spec["variant_collections"] = [specs.gen_variant_collection(rng, lo, hi, idx=str(i)) for i in range(rng.randint(1, 2))]
    if spec.get("variant_collections") and rng.random() < 0.25:
        # a collection that holds nothing but variant collections (e.g. VCF-derived haplotypes)
        spec["genes"], spec["feature_collections"] = [], []
    spec["qualifiers"] = specs.gen_qualifiers(rng, keys=QUAL_KEYS, vals=QUAL_VALS, p_none=0.5)
    rq = engine.rng_for(seed, PROP, "empty-qualifier", idx)
    if rq.random() < 0.15:
        # a key with no values (legal: a flag-like qualifier such as {"pseudo": []}); drawn from its own stream so that the
        # rest of the plan is what it was (seeded r20: an export that "skips empty entries")
        holders = [spec] + spec["genes"] + [t for g in spec["genes"] for t in g["transcripts"]] + \
            [f for c in spec["feature_collections"] for f in c["feature_intervals"]]
        h = rq.choice(holders)
        h["qualifiers"] = dict(h.get("qualifiers") or {})
        h["qualifiers"].setdefault(rq.choice(["pseudo", "flag", "note"]), [])
    if "N" not in par["genome"]["seq"].upper() and rng.random() < 0.4:
        par["genome"]["alphabet"] = rng.choice(["NT_STRICT", "NT_EXTENDED", "NT_STRICT_GAPPED", "NT_STRICT_UNKNOWN"])
    for g in spec["genes"]:
        for t in g["transcripts"]:
            if rng.random() < 0.1:
                t["is_primary_tx"] = rng.choice([True, False])
    for c in spec["feature_collections"]:
        for f in c["feature_intervals"]:
            a, d = f["interval_starts"][0], f["interval_ends"][-1]
            if d - a >= 6 and rng.random() < 0.1:
                # a block nested inside another one (blocks are a multiset of intervals: (a,d)+(b,c) is not (a,c)+(b,d))
                b = rng.randint(a + 1, d - 3)
                cc = rng.randint(b + 1, d - 1)
                f["interval_starts"], f["interval_ends"] = [a, b], [d, cc]
    if rng.random() < 0.15:
        # sequence GUIDs (a rarely used field every level carries): present on a seed-chosen subset of the levels, so that a
        # level has one while its container or its members have none
        sg = "5a1e0c3e-8f10-4c0a-9d55-0d1f6a7b8c9d"
        if rng.random() < 0.5:
            spec["sequence_guid"] = sg
        for g in spec["genes"]:
            if rng.random() < 0.5:
                g["sequence_guid"] = sg
            for t in g["transcripts"]:
                if rng.random() < 0.5:
                    t["sequence_guid"] = sg
        for c in spec["feature_collections"]:
            if rng.random() < 0.5:
                c["sequence_guid"] = sg
            for f in c["feature_intervals"]:
                if rng.random() < 0.5:
                    f["sequence_guid"] = sg
    if rng.random() < 0.15:
        # the annotation calls its sequence by another name than the sequence object it was placed on does
        # (annotation says chr1, the chromosome / chunk was cut from accession NC_...)
        par["genome"]["id"] = rng.choice(["NC_000001.11", "contig_7", "CHR1"])
    seeds = cfg["node_seeds"]
    a = rng.choice(seeds)
    b = rng.choice([s for s in seeds if s != a] or seeds) if rng.random() < 0.9 else a
    case = {
        "spec_a": permute_sets(rng, spec),
        "spec_b": permute_sets(rng, spec),
        "hs_a": a,
        "hs_b": b,
        "warm": rng.random() < 0.35,
        "decoy": rng.choice([None, None, "bases", "unrelated", "unrelated"]),
        "decoy_spec": gen_unrelated(rng),
        "fresh": rng.random() < cfg["fresh_p"],
        "sens": gen_sensitivity(rng, spec),
    }
    # rarely populated collection fields: the query flag set explicitly, explicit bounds that enclose the children
    kids_lo = [t["exon_starts"][0] for g in spec["genes"] for t in g["transcripts"]] + [f["interval_starts"][0] for c in spec["feature_collections"] for f in c["feature_intervals"]] + \
              [v["start"] for c in spec.get("variant_collections") or [] for v in c["variant_intervals"]]
    kids_hi = [t["exon_ends"][-1] for g in spec["genes"] for t in g["transcripts"]] + [f["interval_ends"][-1] for c in spec["feature_collections"] for f in c["feature_intervals"]] + \
              [v["end"] for c in spec.get("variant_collections") or [] for v in c["variant_intervals"]]
    lo, hi = (par["chunk"] if par["mode"] == "chunk" else (0, L))
    r = rng.random()
    extra = {}
    if r < 0.15:
        extra["completely_within"] = rng.choice([True, False])
    if 0.1 < r < 0.25 and kids_lo and par["mode"] != "chunk":
        extra["start"] = rng.randint(lo, max(lo, min(kids_lo)))
        extra["end"] = rng.randint(min(hi, max(kids_hi)), hi)
    if extra:
        for k in ("spec_a", "spec_b"):
            case[k].update(extra)
        if case["sens"]:
            case["sens"]["spec"].update(extra)
    # the subject may be the *result of a query* on the built collection (such results always carry the query flag and
    # their own bounds); producer and consumer derive it the same way
    if rng.random() < 0.25 and kids_lo:
        qs = rng.randint(lo, max(lo, min(kids_hi)))
        qe = rng.randint(max(qs + 1, min(hi, max(kids_lo))), hi) if hi > qs else hi
        case["derive"] = {"start": qs, "end": qe, "completely_within": rng.choice([True, False])}
        case["sens"] = None
    return case


def gen_unrelated(rng):
    """An unrelated, deliberately 'rich' collection a long-lived consumer may have built earlier in the same process:
    variants at positions 0/1 with phase blocks 0/1, explicit primary flags, sequence."""
    spec = specs.gen_collection(rng, L=rng.choice([50, 120]), n_genes=rng.randint(1, 2), n_fcs=1, parent_modes=("chrom",), seqname="chrZ")
    L = len(spec["parent"]["genome"]["seq"])
    vc = specs.gen_variant_collection(rng, 0, L, idx="z", seqname="chrZ", max_v=3)
    if vc["variant_intervals"]:
        v0 = vc["variant_intervals"][0]
        v0["start"], v0["end"], v0["sequence"] = rng.choice([0, 1]), rng.choice([1, 2]) + 1, "A"
        if v0["end"] <= v0["start"]:
            v0["end"] = v0["start"] + 1
        for v in vc["variant_intervals"]:
            v["phase_block"] = rng.choice([0, 1, None])
        if len(vc["variant_intervals"]) > 1 and vc["variant_intervals"][1]["start"] < v0["end"]:
            vc["variant_intervals"] = vc["variant_intervals"][:1]
    for g in spec["genes"]:
        for i, t in enumerate(g["transcripts"]):
            t["is_primary_tx"] = (i == 0)
    for c in spec["feature_collections"]:
        for i, f in enumerate(c["feature_intervals"]):
            f["is_primary_feature"] = (i == 0)
    # earlier activity comes in pieces and in any order: variants only / genes only / features only / everything
    pieces = []
    if vc["variant_intervals"]:
        pieces.append(dict(spec, genes=[], feature_collections=[], variant_collections=[vc]))
    pieces.append(dict(spec, feature_collections=[], variant_collections=[]))
    pieces.append(dict(spec, genes=[], variant_collections=[]))
    rng.shuffle(pieces)
    return pieces[: rng.randint(1, len(pieces))]


def gen_sensitivity(rng, spec):
    """A copy of the spec with one coordinate, strand or frame of one interval changed, plus the path of that
    interval (so the oracle knows whose identifier - and whose ancestors' - must change)."""
    s = copy.deepcopy(spec)
    cands = []
    for gi, g in enumerate(s["genes"]):
        for ti, t in enumerate(g["transcripts"]):
            cands.append(("genes", gi, "transcripts", ti))
    for ci, c in enumerate(s["feature_collections"]):
        for fi, f in enumerate(c["feature_intervals"]):
            cands.append(("feature_collections", ci, "feature_intervals", fi))
    for ci, c in enumerate(s.get("variant_collections") or []):
        for vi, v in enumerate(c["variant_intervals"]):
            cands.append(("variant_collections", ci, "variant_intervals", vi))
    if not cands:
        return None
    path = rng.choice(cands)
    iv = s[path[0]][path[1]][path[2]][path[3]]
    L = len(s["parent"]["genome"]["seq"])
    kind = None
    if path[0] == "genes":
        opts = ["exon_end", "exon_start", "strand"]
        if iv.get("cds_starts"):
            opts += ["frame", "frame", "cds_end"]
        kind = rng.choice(opts)
        if kind == "exon_end":
            if iv["exon_ends"][-1] < L - 1:
                iv["exon_ends"][-1] += 1
            else:
                kind = None
        elif kind == "exon_start":
            if iv["exon_starts"][0] > 0 and (not iv.get("cds_starts") or True):
                iv["exon_starts"][0] -= 1
            else:
                kind = None
        elif kind == "strand":
            iv["strand"] = "MINUS" if iv["strand"] == "PLUS" else "PLUS"
        elif kind == "frame":
            i = rng.randrange(len(iv["cds_frames"]))
            iv["cds_frames"][i] = {"ZERO": "ONE", "ONE": "TWO", "TWO": "ZERO"}[iv["cds_frames"][i]]
        elif kind == "cds_end":
            # shrink the CDS by one base at its genomic end (still inside the exons)
            if iv["cds_ends"][-1] - iv["cds_starts"][-1] > 1:
                iv["cds_ends"][-1] -= 1
            else:
                kind = None
    elif path[0] == "feature_collections":
        kind = rng.choice(["end", "strand"])
        st, en = iv["interval_starts"], iv["interval_ends"]
        if len(st) == 2 and st[0] < st[1] and en[1] < en[0]:
            # nested blocks: exchange the two ends (same numbers, other blocks)
            kind = "swap_ends_of_nested_blocks"
            iv["interval_ends"] = [en[1], en[0]]
        elif kind == "end":
            if iv["interval_ends"][-1] < L - 1:
                iv["interval_ends"][-1] += 1
            else:
                kind = None
        else:
            iv["strand"] = "MINUS" if iv["strand"] == "PLUS" else "PLUS"
    else:
        kind = "variant_end"
        nxt = s[path[0]][path[1]][path[2]]
        limit = nxt[path[3] + 1]["start"] if path[3] + 1 < len(nxt) else L
        par = s["parent"]
        if par["mode"] == "chunk":
            limit = min(limit, par["chunk"][1])
        if iv["end"] < limit:
            iv["end"] += 1
        else:
            kind = None
    if kind is None:
        return None
    return {"spec": s, "path": list(path), "kind": kind}


# ---------------------------------------------------------------------------------------------------------------
# node-side handlers (run inside forked children of node zygotes)


def _b64(b):
    return base64.b64encode(b).decode()


def _unb64(s):
    return base64.b64decode(s.encode())


def _exc(e):
    return {"error": type(e).__name__}


def guid_tree(obj):
    cls = type(obj).__name__
    out = {"cls": cls, "guid": str(getattr(obj, "guid", None))}
    if cls == "AnnotationCollection":
        out["kids"] = [guid_tree(x) for x in list(obj.genes) + list(obj.feature_collections) + list(obj.variant_collections)]
    elif cls == "GeneInterval":
        out["kids"] = [guid_tree(x) for x in obj.transcripts]
    elif cls == "FeatureIntervalCollection":
        out["kids"] = [guid_tree(x) for x in obj.feature_intervals]
    elif cls == "VariantIntervalCollection":
        out["kids"] = [guid_tree(x) for x in obj.variant_intervals]
    elif cls == "TranscriptInterval":
        out["cds"] = str(obj.cds.guid) if obj.cds is not None else None
    return out


def _try(fn):
    try:
        return fn()
    except Exception as e:
        return "!" + type(e).__name__


def seq_report(obj):
    cls = type(obj).__name__
    if cls == "AnnotationCollection":
        return [seq_report(x) for x in list(obj.genes) + list(obj.feature_collections) + list(obj.variant_collections)]
    if cls == "GeneInterval":
        return [seq_report(x) for x in obj.transcripts]
    if cls == "FeatureIntervalCollection":
        return [seq_report(x) for x in obj.feature_intervals]
    if cls == "VariantIntervalCollection":
        return [_try(lambda: str(obj.alternative_genomic_sequence))] + [seq_report(x) for x in obj.variant_intervals]
    if cls == "TranscriptInterval":
        return {
            "spliced": _try(lambda: str(obj.get_spliced_sequence())),
            "cds": _try(lambda: str(obj.get_cds_sequence())) if obj.is_coding else None,
            "protein": _try(lambda: str(obj.get_protein_sequence())) if obj.is_coding else None,
        }
    if cls == "FeatureInterval":
        return {"spliced": _try(lambda: str(obj.get_spliced_sequence()))}
    if cls == "VariantInterval":
        return {"alt": _try(lambda: str(obj.alternative_genomic_sequence))}
    if cls == "CDSInterval":
        return {"cds": _try(lambda: str(obj.extract_sequence())), "protein": _try(lambda: str(obj.translate())),
                "frames": _try(lambda: [f.name for f in obj.frames])}
    return None


def _qual_walk_dict(d):
    """Exported qualifiers of a collection dictionary, level by level in a fixed traversal order."""
    out = [d.get("qualifiers")]
    for g in d.get("genes") or []:
        out.append(g.get("qualifiers"))
        out += [t.get("qualifiers") for t in g["transcripts"]]
    for c in d.get("feature_collections") or []:
        out.append(c.get("qualifiers"))
        out += [f.get("qualifiers") for f in c["feature_intervals"]]
    for c in d.get("variant_collections") or []:
        out.append(c.get("qualifiers"))
        out += [v.get("qualifiers") for v in c["variant_intervals"]]
    return out


def expected_qualifier_export(spec):
    """What the documentation says to_dict() exports for the qualifiers a caller passed in: every value as text, each
    key's values as a sorted list without duplicates; nothing (None) for no qualifiers."""
    def conv(q):
        return {k: sorted({str(v) for v in vs}) for k, vs in q.items()} if q else None

    return [conv(q) for q in _qual_walk_dict(spec)]


def report(obj):
    from bcsim.canon import cjson

    rep = {"guids": guid_tree(obj), "content": _try(lambda: cjson(obj.to_dict())), "seqs": seq_report(obj)}
    if type(obj).__name__ == "AnnotationCollection":
        rep["quals"] = _try(lambda: _qual_walk_dict(obj.to_dict()))
        rep["parent"] = _try(lambda: cjson(obj.to_dict(export_parent=True)["parent_or_seq_chunk_parent"]))
        rep["chunk_location"] = _try(lambda: str(obj.chunk_relative_location))
    return rep


MODELS = {
    "AnnotationCollection": ("AnnotationCollectionModel", "from_annotation_collection", "to_annotation_collection"),
    "GeneInterval": ("GeneIntervalModel", "from_gene_interval", "to_gene_interval"),
    "TranscriptInterval": ("TranscriptIntervalModel", "from_transcript_interval", "to_transcript_interval"),
    "FeatureInterval": ("FeatureIntervalModel", "from_feature_interval", "to_feature_interval"),
    "FeatureIntervalCollection": ("FeatureIntervalCollectionModel", "from_feature_collection", "to_feature_collection"),
    "VariantInterval": ("VariantIntervalModel", "from_variant_interval", "to_variant_interval"),
    "VariantIntervalCollection": ("VariantIntervalCollectionModel", "from_variant_interval_collection", "to_variant_interval_collection"),
}


def children_with_paths(coll):
    out = []
    for gi, g in enumerate(coll.genes):
        out.append((["genes", gi], g))
        for ti, t in enumerate(g.transcripts):
            out.append((["genes", gi, "transcripts", ti], t))
            if t.cds is not None:
                # the CDS as an interval of its own (dictionary leg only: it has no data model and no identifier pinning)
                out.append((["genes", gi, "transcripts", ti, "cds", None], t.cds))
    for ci, c in enumerate(coll.feature_collections):
        out.append((["feature_collections", ci], c))
        for fi, f in enumerate(c.feature_intervals):
            out.append((["feature_collections", ci, "feature_intervals", fi], f))
    for ci, c in enumerate(coll.variant_collections):
        out.append((["variant_collections", ci], c))
        for vi, v in enumerate(c.variant_intervals):
            out.append((["variant_collections", ci, "variant_intervals", vi], v))
    return out


def warm_up(coll):
    import warnings

    with warnings.catch_warnings():
        warnings.simplefilter("ignore")
        for fn in (
            lambda: list(coll.to_gff()), lambda: coll.to_dict(), lambda: hash(coll), lambda: coll.hierarchical_children_guids,
            lambda: coll.interval_guids_to_collections, lambda: seq_report(coll), lambda: coll.children,
            lambda: [t.cds.chunk_relative_codon_locations for g in coll.genes for t in g.transcripts if t.cds],
            lambda: [g.get_merged_transcript() for g in coll.genes], lambda: [g.export_qualifiers() for g in coll.genes],
        ):
            try:
                fn()
            except Exception:
                pass


def serialize_one(obj, is_coll):
    import inscripta.biocantor.io.models as M

    cls = type(obj).__name__
    forms = {}
    try:
        d = obj.to_dict(export_parent=True) if is_coll else obj.to_dict()
        forms["dict"] = _b64(pickle.dumps(d))
    except Exception as e:
        forms["dict"] = _exc(e)
    if cls not in MODELS:
        return forms
    mname, from_fn, _ = MODELS[cls]
    model_cls = getattr(M, mname)
    try:
        model = getattr(model_cls, from_fn)(obj, export_parent=True) if is_coll else getattr(model_cls, from_fn)(obj)
        forms["schema"] = json.dumps(model_cls.Schema().dump(model))
    except Exception as e:
        forms["schema"] = _exc(e)
    try:
        forms["pickle"] = _b64(pickle.dumps(obj))
    except Exception as e:
        forms["pickle"] = _exc(e)
    return forms


def _derive(coll, d):
    return coll.query_by_position(d["start"], d["end"], completely_within=d["completely_within"])


def h_produce(req):
    from bcsim import build

    try:
        coll, _ = build.build_collection(req["spec"])
    except Exception as e:
        return {"build_error": type(e).__name__, "hashseed": os.environ.get("PYTHONHASHSEED")}
    if req.get("warm"):
        warm_up(coll)
    if req.get("derive"):
        try:
            coll = _derive(coll, req["derive"])
        except Exception as e:
            return {"build_error": "derive:" + type(e).__name__, "hashseed": os.environ.get("PYTHONHASHSEED")}
    out = {"report": report(coll), "forms": {"coll": serialize_one(coll, True)}, "children": [], "hashseed": os.environ.get("PYTHONHASHSEED"),
           "set_order_probe": _set_order_probe(req["spec"])}
    for path, child in children_with_paths(coll):
        out["children"].append({"path": path, "cls": type(child).__name__, "has_parent": child.chunk_relative_location.parent is not None,
                                "report": report(child), "forms": serialize_one(child, False)})
    return out


def _set_order_probe(spec):
    """How this interpreter iterates the set of all qualifier values of the spec (to *measure* that producer and
    consumer really differ in set order)."""
    vals = set()

    def walk(x):
        if isinstance(x, dict):
            q = x.get("qualifiers")
            if isinstance(q, dict):
                for k, v in q.items():
                    vals.add(k)
                    vals.update(str(i) for i in v)
            for v in x.values():
                walk(v)
        elif isinstance(x, list):
            for v in x:
                walk(v)

    walk(spec)
    return list(vals)


def load_one(cls, form, payload, parent):
    import inscripta.biocantor.io.models as M
    import inscripta.biocantor.gene.collections as C
    import inscripta.biocantor.gene.gene as G
    import inscripta.biocantor.gene.transcript as T
    import inscripta.biocantor.gene.feature as F
    import inscripta.biocantor.gene.variants as V

    klass = {
        "AnnotationCollection": C.AnnotationCollection, "GeneInterval": G.GeneInterval, "TranscriptInterval": T.TranscriptInterval,
        "FeatureInterval": F.FeatureInterval, "FeatureIntervalCollection": F.FeatureIntervalCollection,
        "VariantInterval": V.VariantInterval, "VariantIntervalCollection": V.VariantIntervalCollection,
        "CDSInterval": __import__("inscripta.biocantor.gene.cds", fromlist=["CDSInterval"]).CDSInterval,
    }[cls]
    mname, _, to_fn = MODELS.get(cls, (None, None, None))
    if form == "dict":
        d = pickle.loads(_unb64(payload))
        return klass.from_dict(d) if cls == "AnnotationCollection" else klass.from_dict(d, parent)
    if form in ("schema", "schema_direct"):
        model = getattr(M, mname).Schema().loads(payload)
        return getattr(model, to_fn)() if cls == "AnnotationCollection" else getattr(model, to_fn)(parent)
    if form == "pickle":
        return pickle.loads(_unb64(payload))
    raise ValueError(form)


def _get_path(coll, path):
    obj = coll
    for i in range(0, len(path), 2):
        obj = getattr(obj, path[i])
        if path[i + 1] is not None:
            obj = obj[path[i + 1]]
    return obj


def h_consume(req):
    from bcsim import build

    spec_b = req["spec"]
    decoy_loaded = 0
    if req.get("decoy_spec"):
        # a long-lived consumer that built an unrelated collection earlier in this very process
        for piece in req["decoy_spec"]:
            try:
                d, _ = build.build_collection(piece)
                report(d)
                decoy_loaded += 1
            except Exception:
                pass
    for form, payload in (req.get("decoy_forms") or {}).items():
        # a long-lived consumer: it served an earlier, unrelated request (same sequence name and length, other
        # bases) before this one.  Nothing of it may leak into what follows.
        if isinstance(payload, dict):
            continue
        try:
            d = load_one("AnnotationCollection", form, payload, None)
            report(d)
            decoy_loaded += 1
        except Exception:
            pass
    try:
        built, _ = build.build_collection(spec_b)
    except Exception as e:
        return {"build_error": type(e).__name__, "hashseed": os.environ.get("PYTHONHASHSEED")}
    if req.get("derive"):
        try:
            built = _derive(built, req["derive"])
        except Exception as e:
            return {"build_error": "derive:" + type(e).__name__, "hashseed": os.environ.get("PYTHONHASHSEED")}
    parent = build.build_parent(spec_b["parent"])
    if req.get("derive"):
        # the children of a query result live on the chunk the query cut out, not on the original parent: a caller
        # that re-imports one of them passes the parent of the collection it belongs to
        parent = built._parent_or_seq_chunk_parent
    out = {"built": report(built), "loaded": [], "hashseed": os.environ.get("PYTHONHASHSEED"), "set_order_probe": _set_order_probe(spec_b),
           "decoy_loaded": decoy_loaded}
    items = [([], "AnnotationCollection", req["forms"]["coll"])] + [(c["path"], c["cls"], c["forms"]) for c in req["children"]]
    for path, cls, forms in items:
        twin = _get_path(built, path) if path else built
        for form, payload in forms.items():
            rec = {"path": path, "cls": cls, "form": form}
            if isinstance(payload, dict) and "error" in payload:
                rec["produce_error"] = payload["error"]
                out["loaded"].append(rec)
                continue
            try:
                obj = load_one(cls, form, payload, parent)
            except Exception as e:
                rec["load_error"] = type(e).__name__
                out["loaded"].append(rec)
                continue
            rec["report"] = report(obj)
            rec["eq"] = _try(lambda: [obj == twin, twin == obj])
            rec["hash_eq"] = _try(lambda: hash(obj) == hash(twin))
            out["loaded"].append(rec)
            if form == "dict" and not req.get("derive"):
                # (not for query results: their children keep, by design, the identifiers of the objects they were cut
                # from, which were computed in the coordinates of the original parent)
                # identifiers are functions of content: the exported content *without* its identifiers, imported again,
                # must be given the very identifiers it was exported with (at every level)
                try:
                    d2 = _strip_own_guids(pickle.loads(_unb64(payload)))
                    klass = type(obj)
                    obj2 = klass.from_dict(d2) if cls == "AnnotationCollection" else klass.from_dict(d2, parent)
                    rec2 = {"path": path, "cls": cls, "form": "recompute", "guids": guid_tree(obj2)}
                except Exception as e:
                    rec2 = {"path": path, "cls": cls, "form": "recompute", "load_error": type(e).__name__}
                out["recomputed"] = out.get("recomputed", []) + [rec2]
    return out


OWN_GUID_KEYS = ("feature_interval_guid", "transcript_interval_guid", "variant_interval_guid", "feature_collection_guid", "gene_guid",
                 "variant_collection_guid")


def _strip_own_guids(d):
    if isinstance(d, dict):
        return {k: (None if k in OWN_GUID_KEYS else _strip_own_guids(v)) for k, v in d.items()}
    if isinstance(d, list):
        return [_strip_own_guids(x) for x in d]
    return d


def h_guids(req):
    from bcsim import build

    try:
        coll, _ = build.build_collection(req["spec"])
    except Exception as e:
        return {"error": type(e).__name__}
    return {"guids": guid_tree(coll)}


# Hand-written pairs of DIFFERENT contents that re-use the same numbers / symbols in other places: what a digest that
# sorts, concatenates without separators or drops a field cannot tell apart.  (class, kwargs A, kwargs B, label)
COLLISION_PROBES = [
    ("VariantInterval", dict(start=1, end=123, sequence="A", variant_type="deletion"), dict(start=11, end=23, sequence="A", variant_type="deletion"),
     "start_end_digit_shift"),
    ("VariantInterval", dict(start=2, end=34, sequence="A", variant_type="deletion"), dict(start=23, end=24, sequence="A", variant_type="SNV"),
     "start_end_digit_shift_other_type"),
    ("FeatureInterval", dict(interval_starts=[10, 20], interval_ends=[50, 30], strand="PLUS"), dict(interval_starts=[10, 20], interval_ends=[30, 50], strand="PLUS"),
     "nested_block_ends_exchanged"),
    ("FeatureInterval", dict(interval_starts=[1, 12], interval_ends=[3, 14], strand="PLUS"), dict(interval_starts=[1], interval_ends=[14], strand="PLUS"),
     "two_blocks_vs_span"),
    ("FeatureInterval", dict(interval_starts=[5], interval_ends=[9], strand="PLUS"), dict(interval_starts=[5], interval_ends=[9], strand="MINUS"), "strand_single_block"),
    ("TranscriptInterval", dict(exon_starts=[10, 20], exon_ends=[50, 30], strand="PLUS"), dict(exon_starts=[10, 20], exon_ends=[30, 50], strand="PLUS"),
     "nested_exon_ends_exchanged"),
    ("TranscriptInterval", dict(exon_starts=[0], exon_ends=[30], strand="PLUS", cds_starts=[3], cds_ends=[27], cds_frames=["ZERO"]),
     dict(exon_starts=[0], exon_ends=[30], strand="PLUS", cds_starts=[3], cds_ends=[27], cds_frames=["ONE"]), "start_frame"),
    ("TranscriptInterval", dict(exon_starts=[0, 20], exon_ends=[10, 30], strand="PLUS", cds_starts=[3, 20], cds_ends=[10, 27], cds_frames=["ZERO", "ONE"]),
     dict(exon_starts=[0, 20], exon_ends=[10, 30], strand="PLUS", cds_starts=[3, 20], cds_ends=[10, 27], cds_frames=["ZERO", "TWO"]), "frame_of_second_block"),
    ("TranscriptInterval", dict(exon_starts=[0, 20], exon_ends=[10, 30], strand="PLUS", cds_starts=[3, 20], cds_ends=[10, 27], cds_frames=["ZERO", "ONE"]),
     dict(exon_starts=[0, 20], exon_ends=[10, 30], strand="PLUS", cds_starts=[3, 21], cds_ends=[10, 27], cds_frames=["ZERO", "ONE"]), "internal_cds_boundary"),
    ("CDSInterval", dict(cds_starts=[0, 20], cds_ends=[10, 30], strand="MINUS", cds_frames=["ONE", "ZERO"]),
     dict(cds_starts=[0, 20], cds_ends=[10, 30], strand="MINUS", cds_frames=["ZERO", "ONE"]), "frames_exchanged"),
]


def h_collisions(req):
    from inscripta.biocantor.gene.variants import VariantInterval
    from inscripta.biocantor.gene.feature import FeatureInterval
    from inscripta.biocantor.gene.transcript import TranscriptInterval
    from inscripta.biocantor.gene.cds import CDSInterval
    from inscripta.biocantor.gene.cds_frame import CDSFrame
    from inscripta.biocantor.location.strand import Strand

    def make(cls, kw):
        kw = dict(kw)
        if "strand" in kw:
            kw["strand"] = Strand[kw["strand"]]
        if "cds_frames" in kw:
            frames = [CDSFrame[x] for x in kw.pop("cds_frames")]
            if cls == "CDSInterval":
                kw["frames_or_phases"] = frames
            else:
                kw["cds_frames"] = frames
        return {"VariantInterval": VariantInterval, "FeatureInterval": FeatureInterval, "TranscriptInterval": TranscriptInterval, "CDSInterval": CDSInterval}[cls](**kw)

    out = []
    for cls, a, b, label in COLLISION_PROBES:
        try:
            oa, ob = make(cls, a), make(cls, b)
            out.append({"cls": cls, "label": label, "same_guid": oa.guid == ob.guid, "same_content": oa.to_dict() == ob.to_dict()})
        except Exception as e:
            out.append({"cls": cls, "label": label, "error": type(e).__name__})
    return {"probes": out}


# ---------------------------------------------------------------------------------------------------------------
# coordinator side


def _first_report_diff(a, b):
    for key in ("guids", "content", "parent", "chunk_location", "seqs"):
        if a.get(key) != b.get(key):
            return key
    return None


def judge_case(case, prod, cons, sens_guids):
    findings = []
    # 1. identifier determinism across nodes / insertion orders
    if prod["report"]["guids"] != cons["built"]["guids"]:
        findings.append({"inv": "guid_determinism", "form": "build", "cls": _first_guid_diff_cls(prod["report"]["guids"], cons["built"]["guids"]), "what": "guid"})
    elif _first_report_diff(prod["report"], cons["built"]):
        findings.append({"inv": "build_determinism", "form": "build", "cls": "AnnotationCollection", "what": _first_report_diff(prod["report"], cons["built"])})
    # 2. round trips
    prod_children = {json.dumps(c["path"]): c for c in prod["children"]}
    for rec in cons["loaded"]:
        src = prod["report"] if not rec["path"] else prod_children[json.dumps(rec["path"])]["report"]
        has_parent = True if not rec["path"] else prod_children[json.dumps(rec["path"])]["has_parent"]
        base = {"inv": "roundtrip", "form": rec["form"], "cls": rec["cls"], "has_parent": has_parent}
        if "produce_error" in rec:
            findings.append(dict(base, what="produce_raise:" + rec["produce_error"]))
            continue
        if "load_error" in rec:
            findings.append(dict(base, what="load_raise:" + rec["load_error"]))
            continue
        d = _first_report_diff(src, rec["report"])
        if d:
            findings.append(dict(base, what=d, detail=_detail(src, rec["report"], d)))
            continue
        if rec["eq"] != [True, True]:
            findings.append(dict(base, what="eq", detail=str(rec["eq"])))
        elif rec["hash_eq"] is not True:
            findings.append(dict(base, what="hash", detail=str(rec["hash_eq"])))
    # 1b. the dictionary exports exactly the qualifiers the producer was given (as text, sorted), whatever else this
    # process converted before
    if not case.get("derive") and isinstance(prod["report"].get("quals"), list):
        want = expected_qualifier_export(case["spec_a"])
        have = prod["report"]["quals"]
        if have != want:
            i = next((j for j in range(min(len(have), len(want))) if have[j] != want[j]), -1)
            findings.append({"inv": "export_equals_input", "form": "dict", "cls": "AnnotationCollection", "what": "qualifiers",
                             "detail": f"level {i}: exported {str(have[i] if i >= 0 else len(have))[:120]} given {str(want[i] if i >= 0 else len(want))[:120]}"})
    # 2b. content -> identifier
    for rec in cons.get("recomputed", []):
        src = prod["report"] if not rec["path"] else prod_children[json.dumps(rec["path"])]["report"]
        base = {"inv": "guid_of_content", "form": "recompute", "cls": rec["cls"]}
        if "load_error" in rec:
            findings.append(dict(base, what="load_raise:" + rec["load_error"]))
        elif rec["guids"] != src["guids"]:
            findings.append(dict(base, what="guid_differs_from_exported:" + str(_first_guid_diff_cls(src["guids"], rec["guids"]))))
    # 3. sensitivity
    if sens_guids is not None and case.get("sens"):
        if "error" not in sens_guids:
            path = case["sens"]["path"]
            old, new = prod["report"]["guids"], sens_guids["guids"]
            chain = [("AnnotationCollection", old, new)]
            o, n = old, new
            offs = _kid_offsets(case["spec_a"])
            k1 = offs[path[0]] + path[1]
            o, n = o["kids"][k1], n["kids"][k1]
            chain.append((o["cls"], o, n))
            o, n = o["kids"][path[3]], n["kids"][path[3]]
            chain.append((o["cls"], o, n))
            for cls, oo, nn in chain:
                if oo["guid"] == nn["guid"]:
                    findings.append({"inv": "guid_sensitivity", "form": "build", "cls": cls, "what": "unchanged_after_" + case["sens"]["kind"]})
    return findings


def _kid_offsets(spec):
    ng = len(spec.get("genes") or [])
    nf = len(spec.get("feature_collections") or [])
    return {"genes": 0, "feature_collections": ng, "variant_collections": ng + nf}


def _first_guid_diff_cls(a, b):
    if a["guid"] != b["guid"] and all(x["guid"] == y["guid"] for x, y in zip(a.get("kids", []), b.get("kids", []))) and a.get("cds") == b.get("cds"):
        return a["cls"]
    for x, y in zip(a.get("kids", []), b.get("kids", [])):
        if x != y:
            return _first_guid_diff_cls(x, y)
    if a.get("cds") != b.get("cds"):
        return "CDSInterval"
    return a["cls"]


def _detail(a, b, key):
    try:
        if key in ("content", "parent") and isinstance(a.get(key), str) and isinstance(b.get(key), str) and not a[key].startswith("!") and not b[key].startswith("!"):
            from bcsim.canon import first_diff

            p, k = first_diff(json.loads(a[key]), json.loads(b[key]))
            parts = [x for x in p.split("/") if x and not x.isdigit() and x != "v"]
            return "/".join(parts[-3:]) + ":" + k
        if key == "guids":
            return _first_guid_diff_cls(a["guids"], b["guids"])
        return f"{str(a.get(key))[:80]} != {str(b.get(key))[:80]}"
    except Exception as e:
        return "?" + type(e).__name__


def sig_key(f):
    return (f["inv"], f["form"], f["cls"], f["what"].split(":")[0] if f["what"].startswith(("content",)) else f["what"], f.get("has_parent"), f.get("detail") if f["what"] in ("content", "parent") else None)


def run_case(case):
    nd = node.nodes()
    if case.get("collision_probes"):
        r = nd.call(case["hs_a"], {"op": "c08.collisions"})
        fs = [{"inv": "guid_sensitivity", "form": "probe", "cls": p_["cls"], "what": "different_content_same_identifier:" + p_["label"]}
              for p_ in r["probes"] if p_.get("same_guid") and not p_.get("same_content")]
        fs += [{"inv": "guid_sensitivity", "form": "probe", "cls": p_["cls"], "what": "probe_raise:" + p_["error"] + ":" + p_["label"]} for p_ in r["probes"] if "error" in p_]
        return fs, {"collision_probe_pairs": len(r["probes"])}, engine.plan_digest(r)
    call_a = nd.call_fresh if case.get("fresh") else nd.call
    prod = nd.call(case["hs_a"], {"op": "c08.produce", "spec": case["spec_a"], "warm": case["warm"], "derive": case.get("derive")})
    if "build_error" in prod:
        # the library refuses this generated collection in its constructor: not a C08 matter, unless the consumer
        # (same content, other hash seed / insertion order) disagrees about it
        cons = nd.call(case["hs_b"], {"op": "c08.consume", "spec": case["spec_b"], "forms": {"coll": {}}, "children": [], "derive": case.get("derive")})
        fs = [] if cons.get("build_error") == prod["build_error"] else [
            {"inv": "build_determinism", "form": "build", "cls": "AnnotationCollection", "what": f"constructor:{prod['build_error']}!={cons.get('build_error')}"}]
        return fs, {"invalid_spec": 1, "parent_mode_" + case["spec_a"]["parent"]["mode"]: 1}, engine.plan_digest(prod)
    # restart: the producer's process is gone; only these bytes survive
    disk = json.loads(json.dumps({"forms": prod["forms"], "children": [{"path": c["path"], "cls": c["cls"], "forms": c["forms"]} for c in prod["children"]]}))
    decoy_forms = None
    if case.get("decoy") in (True, "bases") and case["spec_a"]["parent"]["mode"] in ("chrom", "chunk"):
        dspec = copy.deepcopy(case["spec_a"])
        g = dspec["parent"]["genome"]
        g["seq"] = g["seq"].translate(str.maketrans("ACGT", "CATG"))
        dprod = nd.call(case["hs_a"], {"op": "c08.produce", "spec": dspec, "warm": False, "derive": case.get("derive")})
        if "forms" in dprod:
            decoy_forms = json.loads(json.dumps(dprod["forms"]["coll"]))
    cons = call_a(case["hs_b"], {"op": "c08.consume", "spec": case["spec_b"], "forms": disk["forms"], "children": disk["children"],
                                 "derive": case.get("derive"), "decoy_forms": decoy_forms, "decoy_spec": case.get("decoy_spec") if case.get("decoy") == "unrelated" else None})
    if "build_error" in cons:
        fs = [{"inv": "build_determinism", "form": "build", "cls": "AnnotationCollection", "what": f"constructor:None!={cons['build_error']}"}]
        return fs, {"invalid_spec": 0}, engine.plan_digest(prod["report"])
    sens = None
    if case.get("sens"):
        sens = nd.call(case["hs_b"], {"op": "c08.guids", "spec": case["sens"]["spec"]})
    findings = judge_case(case, prod, cons, sens)
    nforms = sum(1 for r in cons["loaded"])
    stats = {
        "forms_loaded": sum(1 for r in cons["loaded"] if "report" in r),
        "forms_total": nforms,
        **{"loaded_" + c: sum(1 for r in cons["loaded"] if "report" in r and r["cls"] == c) for c in {r["cls"] for r in cons["loaded"]}},
        "hashseed_differs": int(str(case["hs_a"]) != str(case["hs_b"])),
        "set_order_differed": int(sorted(prod["set_order_probe"]) == sorted(cons["set_order_probe"]) and prod["set_order_probe"] != cons["set_order_probe"]),
        "restart": 1,
        "permute_sets": int(case["spec_a"] != case["spec_b"]),
        "warm_before_serialize": int(bool(case["warm"])),
        "stale_consumer": int(bool(cons.get("decoy_loaded"))),
        "subject_is_query_result": int(bool(case.get("derive"))),
        "explicit_completely_within": int(case["spec_a"].get("completely_within") is not None),
        "explicit_bounds": int(case["spec_a"].get("start") is not None),
        "fresh_interpreter": int(bool(case.get("fresh"))),
        "sensitivity_probes": int(sens is not None and "error" not in (sens or {})),
        "sensitivity_invalid": int(sens is not None and "error" in (sens or {})),
        "children": len(prod["children"]),
        "has_variants": int(bool(case["spec_a"].get("variant_collections"))),
        "parent_mode_" + case["spec_a"]["parent"]["mode"]: 1,
    }
    h = engine.plan_digest({"prod": prod["report"], "cons": [(r.get("report"), r.get("eq")) for r in cons["loaded"]], "sens": sens})
    return findings, stats, h


def run_one(item):
    seed, idx, tier = item
    case = gen_case(seed, idx, tier)
    findings, stats, h = run_case(case)
    return {"idx": idx, "digest": h, "plan_digest": engine.plan_digest(case), "stats": stats, "findings": findings}


def run_batch(tier, seed, runs=None, wall=None):
    cfg = TIERS[tier]
    runs = runs or int(os.environ.get("VERIF_RUNS", "0")) or cfg["runs"]
    items = [(seed, i, tier) for i in range(runs)]
    t0 = time.time()
    res = engine.pool_map(run_one, items, wall_cap=wall or cfg["wall"], fini=node.close_nodes)
    return {"results": [r for _, r in res], "wall": time.time() - t0, "hashseed": os.environ.get("PYTHONHASHSEED", "?"), "tier": tier}


# ---- minimisation ---------------------------------------------------------------------------------------------


def _removals(spec):
    """Candidate single-element removals, as functions spec->spec."""
    out = []

    def rm_list(path_fn, i):
        def f(s):
            lst = path_fn(s)
            del lst[i]
            return s
        return f

    for name in ("genes", "feature_collections", "variant_collections"):
        for i in range(len(spec.get(name) or [])):
            out.append(rm_list(lambda s, n=name: s[n], i))
    for gi, g in enumerate(spec.get("genes") or []):
        if len(g["transcripts"]) > 1:
            for ti in range(len(g["transcripts"])):
                out.append(rm_list(lambda s, gi=gi: s["genes"][gi]["transcripts"], ti))
    for ci, c in enumerate(spec.get("feature_collections") or []):
        if len(c["feature_intervals"]) > 1:
            for fi in range(len(c["feature_intervals"])):
                out.append(rm_list(lambda s, ci=ci: s["feature_collections"][ci]["feature_intervals"], fi))
    for ci, c in enumerate(spec.get("variant_collections") or []):
        if len(c["variant_intervals"]) > 1:
            for vi in range(len(c["variant_intervals"])):
                out.append(rm_list(lambda s, ci=ci: s["variant_collections"][ci]["variant_intervals"], vi))

    def quals(d, getter):
        if d.get("qualifiers"):
            for k in list(d["qualifiers"]):
                def f(s, k=k, getter=getter):
                    q = getter(s)["qualifiers"]
                    q.pop(k, None)
                    if not q:
                        getter(s)["qualifiers"] = None
                    return s
                out.append(f)

    quals(spec, lambda s: s)
    for gi, g in enumerate(spec.get("genes") or []):
        quals(g, lambda s, gi=gi: s["genes"][gi])
        for ti, t in enumerate(g["transcripts"]):
            quals(t, lambda s, gi=gi, ti=ti: s["genes"][gi]["transcripts"][ti])
    for ci, c in enumerate(spec.get("feature_collections") or []):
        quals(c, lambda s, ci=ci: s["feature_collections"][ci])
        for fi, f_ in enumerate(c["feature_intervals"]):
            quals(f_, lambda s, ci=ci, fi=fi: s["feature_collections"][ci]["feature_intervals"][fi])
    return out


def shrink_case(case, fails, max_tests=150):
    cur = copy.deepcopy(case)
    cur["sens"] = None if not any(True for _ in [0]) else cur.get("sens")
    tests = 0
    changed = True
    while changed and tests < max_tests:
        changed = False
        n = len(_removals(cur["spec_a"]))
        for i in range(n):
            rem_a = _removals(cur["spec_a"])
            rem_b = _removals(cur["spec_b"])
            if i >= len(rem_a) or i >= len(rem_b) or len(rem_a) != len(rem_b):
                break
            trial = copy.deepcopy(cur)
            try:
                trial["spec_a"] = rem_a[i](trial["spec_a"])
                # the same structural removal on the consumer's permutation: structure lists are in the same order;
                # qualifier keys are removed by name
                trial["spec_b"] = _removals(cur["spec_a"])[i](trial["spec_b"])
            except Exception:
                continue
            if not (trial["spec_a"].get("genes") or trial["spec_a"].get("feature_collections") or trial["spec_a"].get("variant_collections")):
                continue
            trial["sens"] = None
            tests += 1
            if fails(trial):
                cur = trial
                changed = True
                break
            if tests >= max_tests:
                break
    return cur


def minimise_and_write(seed, idx, finding, hashseed, tier="quick"):
    key = sig_key(finding)
    case = gen_case(seed, idx, tier)

    def fails(c):
        try:
            fs, _, _ = run_case(c)
        except Exception:
            return False
        return any(sig_key(f) == key for f in fs)

    keep_sens = finding["inv"] == "guid_sensitivity"
    small = case if keep_sens else shrink_case(case, fails)
    doc = {"check": PROP, "seed": seed, "run": idx, "hashseed": hashseed, "case": small, "expect": finding_expect(finding),
           "note": f"producer hashseed {small['hs_a']}, consumer hashseed {small.get('hs_b')}, warm={small.get('warm')}; finding={json.dumps(finding)[:300]}"}
    node.close_nodes()
    return engine.write_replay(PROP, doc)


def finding_expect(f):
    return {k: f.get(k) for k in ("inv", "form", "cls", "what", "has_parent")}


def replay(doc):
    try:
        fs, _, _ = run_case(doc["case"])
    finally:
        node.close_nodes()
    exp = doc.get("expect") or {}
    hit = [f for f in fs if all(f.get(k) == v for k, v in exp.items())]
    return bool(hit), fs


def aggregate(batches, tier, seed, t0):
    known = engine.load_known()
    stats = collections.Counter()
    digests, nontrivial = set(), set()
    harness_errors, groups = [], {}
    nruns = 0
    for b in batches:
        for r in b["results"]:
            nruns += 1
            if "__harness_error__" in r:
                harness_errors.append(r)
                continue
            for k, v in r["stats"].items():
                stats[k] += v
            digests.add(r["plan_digest"])
            s = collections.Counter(r["stats"])
            if s["forms_loaded"] >= 3 and (s["hashseed_differs"] or s["permute_sets"]):
                nontrivial.add(r["plan_digest"])
            for f in r["findings"]:
                groups.setdefault(sig_key(f), []).append((b["hashseed"], r["idx"], f))
    violations, known_hits = [], collections.Counter()
    for key, insts in sorted(groups.items(), key=lambda kv: str(kv[0])):
        hs, idx, f = insts[0]
        k = engine.match_known(known, PROP, f)
        if k:
            known_hits[k["id"]] += len(insts)
        else:
            violations.append((key, hs, idx, f, len(insts)))
    return dict(stats=stats, plan_digests=digests, nontrivial=nontrivial, harness_errors=harness_errors, violations=violations,
                known_hits=known_hits, known=known, nruns=nruns, tier=tier)


def evidence(agg, tier, seed, wall, batches):
    st = agg["stats"]
    case = gen_case(seed, 1, tier)
    sample = {"run": 1, "producer_hashseed": case["hs_a"], "consumer_hashseed": case["hs_b"], "warm": case["warm"],
              "spec_a(genes/fcs/vcs)": [len(case["spec_a"]["genes"]), len(case["spec_a"]["feature_collections"]), len(case["spec_a"].get("variant_collections") or [])],
              "parent": case["spec_a"]["parent"]["mode"], "first_gene_qualifiers_producer_order": (case["spec_a"]["genes"][0].get("qualifiers") if case["spec_a"]["genes"] else None),
              "first_gene_qualifiers_consumer_order": (case["spec_b"]["genes"][0].get("qualifiers") if case["spec_b"]["genes"] else None),
              "sensitivity": {"path": case["sens"]["path"], "kind": case["sens"]["kind"]} if case.get("sens") else None}
    rph = agg["nruns"] / wall * 3600 if wall else 0
    return {
        "evaluations": agg["nruns"],
        "distinct_nontrivial": len(agg["nontrivial"]),
        "rule": "one evaluation = one producer/consumer episode: node A (hash seed a) builds a generated collection from insertion "
                "order pi, serialises every level in every form, exits; node B (hash seed b) loads every form from the bytes, builds "
                "the same content from insertion order pi', and a third request builds a one-coordinate/strand/frame variant. "
                "distinct = sha256 of the whole case; non-trivial = >=3 forms loaded AND (hash seeds differ OR insertion orders differ).",
        "samples": [sample],
        "simulated_runs_per_hour": round(rph),
        "seeds_per_hour": round(rph),
        "simulated_time": "not applicable: no timers; one episode = 3 node requests (2 process restarts)",
        "faults_fired": {
            "hashseed(producer!=consumer)": st["hashseed_differs"], "restart(bytes only survive)": st["restart"],
            "permute_sets(insertion order differs)": st["permute_sets"], "warm_before_serialize": st["warm_before_serialize"],
            "fresh_interpreter_consumer": st["fresh_interpreter"],
            "forms_loaded_by_class": {k[7:]: v for k, v in st.items() if k.startswith("loaded_")},
            "stale_consumer(first loaded a same-named other-bases collection, or built an unrelated rich collection)": st["stale_consumer"],
        },
        "reach_probes": {
            "episodes_where_set_iteration_order_really_differed_between_nodes": st["set_order_differed"],
            "forms_loaded": st["forms_loaded"], "forms_total": st["forms_total"], "child_objects_serialised": st["children"],
            "episodes_with_variants": st["has_variants"], "sensitivity_probes": st["sensitivity_probes"],
            "hand_written_collision_pairs_checked(different content made of the same numbers)": st["collision_probe_pairs"],
            "sensitivity_probe_invalid_spec": st["sensitivity_invalid"],
            "episodes_skipped_because_the_constructor_refused_the_generated_collection": st["invalid_spec"],
            "parent_modes": {k[len("parent_mode_"):]: v for k, v in st.items() if k.startswith("parent_mode_")},
        },
        "node_hash_seeds": TIERS[tier]["node_seeds"],
        "known_findings_hit": dict(agg["known_hits"]),
        "harness_errors": len(agg["harness_errors"]),
        "components_real": engine.REAL,
        "components_stub": engine.STUBS[:1] + ["simulated disk = JSON text held by the coordinator between the producer's exit and the consumer's start"],
        "repo_head": engine.repo_head(),
    }


ASSUMPTIONS = [
    "schema round trip uses the documented path Model.from_*(obj) -> Schema().dump -> json -> Schema().loads -> model.to_*()",
    "child-level forms do not carry a parent; the consumer passes the parent it builds from the same description",
    "torn/corrupted bytes are not injected: Python's own pickle/json decoders reject them and the property does not speak of it",
    "third-party drift shim bcsim/compat.py is loaded before the library (marshmallow 4 vs post_dump(pass_many))",
]
