"""C12 - GenBank export is faithful to an independent reader and to BioCantor's parsers.

Simulated system: exporter node A writes GenBank through a SimDisk handle (BioPython performs the writes; the disk
fails at every write index in a fraction of the episodes); importer node B (another hash seed) reads A's bytes with the
independent reader (Bio.SeqIO, native API) and with BioCantor's parser through a short-reading SimDisk reader in all
three grouping modes.

Oracles: (a) independent reader: record sequence, one record of the documented type per gene / transcript / CDS /
feature with exactly the source blocks and strand and the source identifiers in its qualifiers; /translation equals an
independent translation of the CDS extracted by the independent reader; (b) BioCantor re-parse: transcript structure
(eukaryotic) / CDS structure (prokaryotic), strand, start frame, symbols, locus tags, protein ids; (c) the three parser
modes agree on position-sorted files with unique locus tags; (d) write faults propagate and leave a prefix;
(e) parsed model independent of hash seed and of reader chunking."""
import collections
import copy
import json
import os
import time

from bcsim import engine, node, specs

PROP = "C12"
LEVEL = "exploration"
TIERS = {
    "quick": dict(runs=400, wall=900, hashseeds=[0], node_seeds=[0, 1, 77, 4242], fault_p=0.06),
    "thorough": dict(runs=12000, wall=6 * 3600, hashseeds=[0], node_seeds=[0, 1, 2, 3, 5, 7, 11, 13, 77, 101, 1234, 4242, 9999, 31337, 65537, 99991], fault_p=0.06),
}
NONCODING = ["ncRNA", "tRNA", "rRNA", "misc_RNA", "tmRNA", "lncRNA", "snoRNA"]
GB_TX_TYPES = {"ncRNA", "tRNA", "rRNA", "misc_RNA", "tmRNA"}
MODES = ["SORTED", "LOCUS_TAG", "HYBRID"]
STOPS = ("TAA", "TAG", "TGA")


# ---------------------------------------------------------------------------------------------------------------
# generation


def gen_gene(rng, lo, hi, idx, seqname, single_isoform):
    strand = rng.choice(["PLUS", "MINUS"])
    coding = rng.random() < 0.7
    ntx = 1 if single_isoform else rng.choice([1, 1, 2, 3])
    txs = []
    for i in range(ntx):
        for _ in range(20):
            t = specs.gen_transcript(rng, lo, hi, idx=f"{idx}_{i}", strand=strand, seqname=seqname, coding_p=1.0 if coding else 0.0,
                                     frameshift_p=0.0, quals=dict(keys=["note", "db_xref", "inference", "function"], vals=specs.QUAL_VALS_PLAIN, collide_p=0.0, p_none=0.5))
            if coding and not t.get("cds_starts"):
                continue
            if coding:
                n = specs.blocks_len(t["cds_starts"], t["cds_ends"])
                f0 = {"ZERO": 0, "ONE": 1, "TWO": 2}[t["cds_frames"][0 if strand == "PLUS" else -1]]
                first = 0 if strand == "PLUS" else -1
                if n - f0 < 3:
                    continue
            break
        else:
            return None
        t["transcript_id"] = f"tx{idx}_{i}"
        if coding and rng.random() < 0.12:
            # what a transcript carries after it was parsed from a GenBank file and then edited: the CDS record's own
            # qualifiers as free qualifiers, possibly stale (the CDS record written for it must win)
            q = t.get("qualifiers") or {}
            q["codon_start"] = [rng.choice(["1", "2", "3"])]
            t["qualifiers"] = q
        t["transcript_type"] = "protein_coding" if coding else None
        if coding:
            t["protein_id"] = f"prot{idx}_{i}" if rng.random() < 0.8 else None
        txs.append(t)
    if coding and not single_isoform and rng.random() < 0.35:
        # an isoform with the very same CDS blocks read from another start frame (5'-partial variant of the same CDS)
        k = rng.randrange(len(txs))
        v = copy.deepcopy(txs[k])
        first = 0 if strand == "PLUS" else -1
        old_f0 = {"ZERO": 0, "ONE": 1, "TWO": 2}[v["cds_frames"][first]]
        new_f0 = rng.choice([f for f in (0, 1, 2) if f != old_f0])
        if specs.blocks_len(v["cds_starts"], v["cds_ends"]) - new_f0 >= 3:
            v["cds_frames"] = specs.frames_for(v["cds_starts"], v["cds_ends"], strand, new_f0)
            v["transcript_id"] = v["transcript_id"] + "v"
            if v.get("protein_id"):
                v["protein_id"] += "v"
            txs.insert(k + rng.choice([0, 1]), v)
    if coding and single_isoform and rng.random() < 0.2:
        # an isoform with the SAME exon chain and a CDS that ends one codon earlier (alternative stop): the one multi-isoform
        # shape the grouping heuristics of every parser mode handle (shared exon chain), so it stays in the conditioned family
        v = copy.deepcopy(txs[0])
        if strand == "PLUS" and v["cds_ends"][-1] - v["cds_starts"][-1] > 3:
            v["cds_ends"][-1] -= 3
        elif strand == "MINUS" and v["cds_ends"][0] - v["cds_starts"][0] > 3:
            v["cds_starts"][0] += 3
        else:
            v = None
        if v is not None:
            f0 = {"ZERO": 0, "ONE": 1, "TWO": 2}[v["cds_frames"][0 if strand == "PLUS" else -1]]
            if specs.blocks_len(v["cds_starts"], v["cds_ends"]) - f0 >= 3:
                v["transcript_id"] += "s"
                v["protein_id"] = rng.choice([None, v.get("protein_id"), (v.get("protein_id") or "prot") + "s"])
                txs.append(v)
    gtype = "protein_coding" if coding else rng.choice(NONCODING)
    for t in txs:
        if not coding:
            t["transcript_type"] = gtype
    return {
        "transcripts": txs,
        "gene_id": f"gene{idx}" if rng.random() < 0.8 else None,
        "gene_symbol": f"GN{idx}" if rng.random() < 0.75 else None,
        "gene_type": gtype,
        "locus_tag": f"LT_{idx}" if rng.random() < 0.7 else None,
        "qualifiers": specs.gen_qualifiers(rng, keys=["note", "db_xref", "function"], vals=specs.QUAL_VALS_PLAIN, collide_p=0.0, p_none=0.5),
        "sequence_name": seqname,
    }


def gen_collection(rng, cidx, conditioned, tagnums=None):
    tagnums = tagnums if tagnums is not None else [rng.randint(0, 9999)]
    L = rng.choice([90, 180, 360])
    seqname = ["chrA", "chrB"][cidx]
    seq = specs.gen_seq(rng, L, with_n=(not conditioned) and rng.random() < 0.1)
    ngenes = rng.randint(1, 4)
    genes = []
    for g in range(ngenes):
        if conditioned:
            lo = (L * g) // ngenes + 1
            hi = (L * (g + 1)) // ngenes - 1
        else:
            lo = rng.randint(0, max(0, L - 20))
            hi = rng.randint(min(L, lo + 15), L)
        if hi - lo < 12:
            continue
        gene = gen_gene(rng, lo, hi, f"{cidx}{g}", seqname, single_isoform=conditioned)
        if gene is None:
            continue
        if conditioned:
            # unique locus tags (numbered independently of record and position, so that tags of different records
            # interleave in string order), and a symbol or id so that the writer can always derive /gene and /locus_tag
            gene["locus_tag"] = f"LT_{tagnums.pop():04d}"
        genes.append(gene)
        for t in gene["transcripts"]:
            if t.get("cds_starts"):
                seq = specs.plant_orf(seq, t, rng, p_start=0.7, p_stop=0.7, start_codons=("ATG", "ATG", "TTG", "GTG"))
    fcs = []
    if not conditioned:
        for f in range(rng.choice([0, 0, 1])):
            lo = rng.randint(0, max(0, L - 10))
            hi = rng.randint(min(L, lo + 8), L)
            fc = specs.gen_feature_collection(rng, lo, hi, idx=f"{cidx}{f}", seqname=seqname, quals=dict(collide_p=0.0))
            st = rng.choice(["PLUS", "MINUS"])
            for fi in fc["feature_intervals"]:
                fi["strand"] = st
            fcs.append(fc)
    if not genes:
        return None
    return {"genes": genes, "feature_collections": fcs, "variant_collections": [], "name": None, "id": None, "sequence_name": seqname,
            "qualifiers": None, "start": None, "end": None, "completely_within": None,
            "parent": {"mode": "chrom", "genome": {"id": seqname, "seq": seq, "alphabet": "NT_EXTENDED_GAPPED"}}}


def gen_case(seed, idx, tier="quick"):
    rng = engine.rng_for(seed, PROP, idx)
    cfg = TIERS[tier]
    conditioned = rng.random() < 0.7
    colls = []
    tagnums = rng.sample(range(10000), 64)
    for c in range(rng.choice([1, 1, 2])):
        for _ in range(10):
            s = gen_collection(rng, c, conditioned, tagnums)
            if s:
                colls.append(s)
                break
    if conditioned and len(colls) == 2 and colls[0]["genes"] and colls[1]["genes"] and rng.random() < 0.3:
        # the same locus tag on one gene of each record (homologous chromosomes / two assemblies in one file): tags are
        # still unique within every record
        colls[1]["genes"][rng.randrange(len(colls[1]["genes"]))]["locus_tag"] = rng.choice(colls[0]["genes"])["locus_tag"]
    seeds = cfg["node_seeds"]
    a = rng.choice(seeds)
    b = rng.choice([s for s in seeds if s != a] or seeds)
    prior = None
    if colls and rng.random() < 0.35:
        t = copy.deepcopy(colls[0])
        t["parent"]["genome"]["seq"] = t["parent"]["genome"]["seq"].translate(str.maketrans("ACGT", "CATG"))
        prior = [t]
    return {"specs": colls, "prior": prior, "conditioned": conditioned, "flavor": rng.choice(["PROKARYOTIC", "EUKARYOTIC"]), "update_translations": rng.random() < 0.7,
            "hs_a": a, "hs_b": b, "faults": rng.random() < cfg["fault_p"], "reader_chunk": rng.choice([1, 16, 256]), "warm": rng.random() < 0.3,
            # schedule of the importer's cooperating consumers (see bcsim/coop.py) and read-fault enumeration
            "sched_seed": rng.randrange(2 ** 31) if rng.random() < 0.5 else None,
            "read_faults": rng.choice(MODES) if rng.random() < cfg["fault_p"] * 1.5 else None,
            # earlier activity on the SAME live objects: they were exported in the other flavour (other translation table)
            # and / or asked for their protein under both tables before the export under test
            "warm_other": rng.choice([None, None, "export", "translate", "both"]),
            # what the writer is given: an open (simulated) handle, or a path it opens itself
            "target": rng.choice(["handle"] * 6 + ["str_path", "pathlib"])}


# ---------------------------------------------------------------------------------------------------------------
# node side


def _export(colls, case, writer):
    from inscripta.biocantor.io.genbank.writer import collection_to_genbank, GenbankFlavor

    collection_to_genbank(colls, writer, genbank_type=GenbankFlavor[case["flavor"]], update_translations=case["update_translations"])


def h_export(req):
    import warnings
    from bcsim import build, simdisk

    warnings.simplefilter("ignore")
    case = req["case"]
    out = {"hashseed": os.environ.get("PYTHONHASHSEED")}
    try:
        colls = [build.build_collection(s)[0] for s in case["specs"]]
    except Exception as e:
        return {"build_error": type(e).__name__}
    if case.get("warm"):
        for c in colls:
            try:
                c.to_dict()
                list(c.to_gff())
                [t.get_protein_sequence() for g in c.genes for t in g.transcripts if t.cds]
            except Exception:
                pass
    if case.get("warm_other"):
        from inscripta.biocantor.gene.codon import TranslationTable

        other = dict(case, flavor="EUKARYOTIC" if case["flavor"] == "PROKARYOTIC" else "PROKARYOTIC", update_translations=True)
        try:
            if case["warm_other"] in ("translate", "both"):
                for tt in (TranslationTable.PROKARYOTE, TranslationTable.STANDARD, TranslationTable.DEFAULT):
                    [t.get_protein_sequence(translation_table=tt) for c in colls for g in c.genes for t in g.transcripts if t.cds]
            if case["warm_other"] in ("export", "both"):
                _export(colls, other, simdisk.SimWriter())
            out["warm_other"] = case["warm_other"]
        except Exception as e:
            out["warm_other_error"] = type(e).__name__
    if case.get("prior"):
        # earlier activity in this exporter process: a strain twin (same annotation, other bases) was exported first
        try:
            pw = simdisk.SimWriter()
            _export([build.build_collection(sp)[0] for sp in case["prior"]], case, pw)
            out["prior_text"] = pw.getvalue()
        except Exception as e:
            out["prior_error"] = type(e).__name__
    w = simdisk.SimWriter()
    try:
        if case.get("target") in ("str_path", "pathlib"):
            # the documented alternative to an open handle: the writer opens the file itself (no fault injection possible
            # on this leg; the file lives under /dev/shm for the duration of the call)
            import pathlib

            path = f"/dev/shm/bcsim-c12-{os.getpid()}.gbk"
            try:
                _export(colls, case, path if case["target"] == "str_path" else pathlib.Path(path))
                with open(path) as fh:
                    out["t1"] = fh.read()
            finally:
                if os.path.exists(path):
                    os.unlink(path)
            out["W"] = 0
            out["target"] = case["target"]
        else:
            _export(colls, case, w)
            out["t1"] = w.getvalue()
            out["W"] = w.nwrites
    except Exception as e:
        out["t1_error"] = type(e).__name__
        return out
    if req.get("mode") == "plain":
        return out
    if case.get("faults") and not out.get("target"):
        W = w.nwrites
        ks = list(range(1, W + 1))
        if W > 500:
            ks = ks[:250] + ks[250:-100:max(1, (W - 350) // 100)] + ks[-100:]
        faults = []
        for k in ks:
            fw = simdisk.SimWriter(fail_at=k)
            rec = {"k": k}
            try:
                _export(colls, case, fw)
                rec["outcome"] = "returned"
            except OSError:
                rec["outcome"] = "oserror" if fw.fired else "other_oserror"
            except Exception as e:
                rec["outcome"] = "raise:" + type(e).__name__
            rec["n"] = len(fw.chunks)
            rec["prefix_ok"] = fw.chunks == w.chunks[: len(fw.chunks)]
            faults.append(rec)
        out["faults"] = faults
        out["enumerated_all"] = len(ks) == W
    return out


def _biopython_read(text):
    """Independent reader: Bio.SeqIO (native API; nothing of the compat layer is involved in reading)."""
    import io
    from Bio import SeqIO

    recs = []
    for rec in SeqIO.parse(io.StringIO(text), "genbank"):
        feats = []
        for f in rec.features:
            parts = [[int(p.start), int(p.end), p.strand] for p in f.location.parts]
            try:
                ext = str(f.extract(rec.seq))
            except Exception as e:
                ext = "!" + type(e).__name__
            feats.append({"type": f.type, "parts": parts, "strand": f.location.strand, "quals": {k: list(v) for k, v in f.qualifiers.items()}, "extract": ext})
        recs.append({"name": rec.name, "id": rec.id, "seq": str(rec.seq), "features": feats})
    return recs


def _gene_summary(coll):
    genes = []
    for g in coll.genes:
        txs = []
        for t in g.transcripts:
            txs.append({
                "exon_starts": list(t._genomic_starts), "exon_ends": list(t._genomic_ends), "strand": t.strand.name,
                "cds_starts": list(t.cds._genomic_starts) if t.cds else None, "cds_ends": list(t.cds._genomic_ends) if t.cds else None,
                "cds_frames": [f.name for f in t.cds.frames] if t.cds else None,
                "transcript_id": t.transcript_id, "transcript_symbol": t.transcript_symbol, "protein_id": t.protein_id, "product": t.product,
                "transcript_type": t.transcript_type.name if t.transcript_type else None,
            })
        genes.append({"gene_id": g.gene_id, "gene_symbol": g.gene_symbol, "locus_tag": g.locus_tag, "gene_type": g.gene_type.name if g.gene_type else None,
                      "transcripts": txs})
    return {"sequence_name": coll.sequence_name, "genes": genes, "n_fcs": len(coll.feature_collections),
            "seq": str(coll.sequence) if coll.sequence is not None else None}


def h_import(req):
    import warnings
    import random as _r
    from bcsim import simdisk

    warnings.simplefilter("ignore")
    from inscripta.biocantor.io.genbank.parser import parse_genbank, GenBankParserType
    from inscripta.biocantor.io.parser import ParsedAnnotationRecord

    text = req["text"]
    out = {"hashseed": os.environ.get("PYTHONHASHSEED"), "biopython": None, "modes": {}}
    if req.get("prior_text"):
        # a long-lived importer: it parsed another file (all three modes) earlier in this process
        for mode in MODES:
            try:
                list(ParsedAnnotationRecord.parsed_annotation_records_to_model(list(parse_genbank(simdisk.SimReader(req["prior_text"]), gbk_type=GenBankParserType[mode]))))
                out["prior_parsed"] = True
            except Exception:
                pass
    try:
        out["biopython"] = _biopython_read(text)
    except Exception as e:
        out["biopython_error"] = type(e).__name__ + ": " + str(e)[:150]
    for mode in MODES:
        res = {}
        for label, rd in (("short", simdisk.SimReader(text, rng=_r.Random(5), max_chunk=req.get("reader_chunk", 16))), ("plain", simdisk.SimReader(text))):
            try:
                recs = list(parse_genbank(rd, gbk_type=GenBankParserType[mode]))
                colls = list(ParsedAnnotationRecord.parsed_annotation_records_to_model(recs))
                res[label] = [_gene_summary(c) for c in colls]
            except Exception as e:
                res[label] = {"error": type(e).__name__, "msg": str(e)[:160]}
            res[label + "_reads"] = rd.reads
        out["modes"][mode] = res
    if req.get("sched_seed") is not None:
        # several consumers of this importer step their (lazy) parsers in a seed-chosen interleaving; one of them may
        # be reading the other file and walk away in the middle of it
        from bcsim import coop

        srng = _r.Random(req["sched_seed"])
        chosen = [srng.choice(MODES) for _ in range(srng.choice([2, 3]))]
        makers = []
        for i, m in enumerate(chosen):
            makers.append((f"{m}#{i}", (lambda m=m, i=i: parse_genbank(
                simdisk.SimReader(text, rng=_r.Random(i), max_chunk=req.get("reader_chunk", 16)), gbk_type=GenBankParserType[m]))))
        abandon = {}
        if req.get("prior_text"):
            pm = srng.choice(MODES)
            makers.append(("prior", lambda: parse_genbank(simdisk.SimReader(req["prior_text"]), gbk_type=GenBankParserType[pm])))
            abandon["prior"] = srng.choice([0, 1, 1, 99])
        res, schedule = coop.run_tasks(makers, srng, abandon)
        sched = {}
        for lb, r in res.items():
            if lb == "prior":
                continue
            if r["error"]:
                sched[lb] = {"error": r["error"].split(":")[0]}
                continue
            try:
                sched[lb] = [_gene_summary(c) for c in ParsedAnnotationRecord.parsed_annotation_records_to_model(r["items"])]
            except Exception as e:
                sched[lb] = {"error": type(e).__name__}
        out["sched"] = sched
        out["schedule"] = schedule
        out["sched_abandoned"] = bool(res.get("prior", {}).get("abandoned"))
    if req.get("read_faults"):
        m = req["read_faults"]
        plain = out["modes"][m]["plain"]
        R = out["modes"][m]["plain_reads"]
        if isinstance(plain, list) and R:
            ks = list(range(1, R + 1))
            if R > 90:
                ks = ks[:30] + ks[30:-30:max(1, (R - 60) // 30)] + ks[-30:]
            recs_out = []
            for k in ks:
                rd = simdisk.SimReader(text, fail_at=k)
                try:
                    got = [_gene_summary(c) for c in ParsedAnnotationRecord.parsed_annotation_records_to_model(
                        list(parse_genbank(rd, gbk_type=GenBankParserType[m])))]
                    outcome = "returned_full" if got == plain else "returned_wrong"
                except OSError:
                    outcome = "oserror" if rd.fired else "other_oserror"
                except Exception as e:
                    outcome = "raise:" + type(e).__name__
                recs_out.append({"k": k, "outcome": outcome, "fired": rd.fired})
            out["read_faults"] = recs_out
            out["read_faults_all"] = len(ks) == R
    return out


# ---------------------------------------------------------------------------------------------------------------
# oracle (a): independent reader vs spec


def _tx_feature_type(t):
    tt = t.get("transcript_type")
    if tt in GB_TX_TYPES:
        return tt
    return "mRNA" if t.get("cds_starts") else "misc_RNA"


def _sv(strand):
    return 1 if strand == "PLUS" else -1


def _codon_table(flavor):
    from Bio.Data import CodonTable

    return CodonTable.unambiguous_dna_by_id[11 if flavor == "PROKARYOTIC" else 1]


def independent_translation(cds_nt, codon_start, flavor):
    """Translate like an independent reader would: skip codon_start-1 bases, standard forward table, '*' for stops,
    first codon -> 'M' when it is a start codon of the flavour's table (ATG only for eukaryotic export, as the
    writer documents TranslationTable.DEFAULT there)."""
    table = _codon_table(flavor)
    nt = cds_nt.upper()[codon_start - 1:]
    starts = set(table.start_codons) if flavor == "PROKARYOTIC" else {"ATG"}
    aa = []
    for i in range(0, len(nt) - 2, 3):
        c = nt[i:i + 3]
        if i == 0 and c in starts:
            aa.append("M")
        elif c in STOPS:
            aa.append("*")
        elif c in table.forward_table:
            aa.append(table.forward_table[c])
        else:
            return None  # ambiguous base: the writer documents that no translation is written
    return "".join(aa)



_SKIP_QUAL_KEYS = ("codon_start", "translation")  # checked on their own (frames / independent translation)


def _qnorm(d):
    """qualifier dict -> {key: sorted values as text without white space} (GenBank wraps long values; the reader joins
    the pieces with blanks)"""
    out = {}
    for k, vs in (d or {}).items():
        if k in _SKIP_QUAL_KEYS:
            continue
        out[str(k)] = sorted({"".join(str(v).split()) for v in vs})
    return out


def _with(q, key, val):
    if val:
        q.setdefault(key, set()).add(val)


def _own(spec_quals):
    return {k: set(vs) for k, vs in (spec_quals or {}).items()}


def expected_record_qualifiers(kind, obj, symbol=None, locus=None, container=None):
    """What the documentation of the writer (io/genbank/writer.py doc strings, export_qualifiers) says a record carries:
    the interval's own qualifiers, its identifiers under the BioCantor keys, /gene (or /misc_feature) and /locus_tag of
    the gene or feature collection it belongs to - and nothing else (in particular nothing of a sibling)."""
    q = _own(obj.get("qualifiers"))
    if kind == "gene":
        _with(q, "gene_id", obj.get("gene_id"))
        _with(q, "gene_name", obj.get("gene_symbol"))
        _with(q, "gene_biotype", obj.get("gene_type") or "unspecified")
        _with(q, "locus_tag", obj.get("locus_tag"))
        if symbol:
            q["gene"] = {symbol}
        if locus:
            q["locus_tag"] = {locus}
    elif kind in ("transcript", "cds"):
        _with(q, "transcript_id", obj.get("transcript_id"))
        _with(q, "transcript_name", obj.get("transcript_symbol"))
        _with(q, "transcript_biotype", obj.get("transcript_type") or "unspecified")
        _with(q, "protein_id", obj.get("protein_id"))
        if symbol is not None:
            q["gene"] = {symbol}
        if locus is not None:
            q["locus_tag"] = {locus}
        if kind == "transcript":
            q.pop("protein_id", None)
    elif kind == "feature_collection":
        _with(q, "feature_collection_id", obj.get("feature_collection_id"))
        _with(q, "feature_collection_name", obj.get("feature_collection_name"))
        _with(q, "locus_tag", obj.get("locus_tag"))
        _with(q, "feature_collection_type", obj.get("feature_collection_type"))
        types = set()
        for f in obj["feature_intervals"]:
            types |= set(f.get("feature_types") or [])
        if types:
            q["feature_type"] = types
        if symbol:
            q["misc_feature"] = {symbol}
        if locus:
            q["locus_tag"] = {locus}
    elif kind == "feature":
        _with(q, "feature_name", obj.get("feature_name"))
        _with(q, "feature_id", obj.get("feature_id"))
        if obj.get("feature_types"):
            q["feature_type"] = set(obj["feature_types"])
        if symbol:
            q["gene"] = {symbol}
        if container.get("locus_tag"):
            q["locus_tag"] = {container["locus_tag"]}
    return _qnorm(q)


def check_biopython(case, imp):
    fs = []

    def bad(what, detail=""):
        fs.append({"inv": "independent_reader", "what": what, "detail": str(detail)[:240], "flavor": case["flavor"]})

    if "biopython_error" in imp or imp.get("biopython") is None:
        bad("unreadable", imp.get("biopython_error"))
        return fs
    recs = imp["biopython"]
    if len(recs) != len(case["specs"]):
        bad("record_count", f"{len(recs)} != {len(case['specs'])}")
        return fs
    for rec, spec in zip(recs, case["specs"]):
        genome = spec["parent"]["genome"]["seq"]
        if rec["seq"].upper() != genome.upper():
            bad("record_sequence")
        if rec["name"] != spec["sequence_name"]:
            bad("record_name", f"{rec['name']} != {spec['sequence_name']}")
        feats = list(rec["features"])
        used = set()

        def take(ftype, blocks, strand, quals_need, label):
            want = sorted([s, e] for s, e in blocks)
            for i, f in enumerate(feats):
                if i in used or f["type"] != ftype:
                    continue
                if sorted(p[:2] for p in f["parts"]) != want:
                    continue
                if any(p[2] != strand for p in f["parts"]) or f["strand"] != strand:
                    continue
                if all(v in f["quals"].get(k, []) for k, v in quals_need.items() if v is not None):
                    used.add(i)
                    return f
            # diagnose
            cands = [f for i, f in enumerate(feats) if i not in used and f["type"] == ftype]
            if not cands:
                bad(f"{label}_record_missing", f"no unused {ftype} record")
            elif not any(sorted(p[:2] for p in f["parts"]) == want for f in cands):
                bad(f"{label}_blocks", f"wanted {want} strand {strand}; have {[sorted(p[:2] for p in f['parts']) for f in cands][:3]}")
            elif not any(sorted(p[:2] for p in f["parts"]) == want and f["strand"] == strand and all(p[2] == strand for p in f["parts"]) for f in cands):
                bad(f"{label}_strand", f"wanted {strand}")
            else:
                bad(f"{label}_identifiers", f"wanted {quals_need}")
            return None

        def same_extract(f, blocks, strand_name, label):
            """independent extraction of a multi-part record: the source bases of the blocks joined 5'->3'"""
            if f is None:
                return
            src = "".join(genome[s:e] for s, e in sorted(blocks))
            if strand_name == "MINUS":
                src = specs.revcomp(src)
            if f["extract"].upper() != src.upper():
                bad(f"{label}_extract_order", f"strand {strand_name} blocks {len(blocks)} parts as written {[p[:2] for p in f['parts']][:4]}")

        def same_quals(f, want, label):
            if f is None:
                return
            have = _qnorm(f["quals"])
            if have != want:
                diff = {k: (have.get(k), want.get(k)) for k in sorted(set(have) | set(want)) if have.get(k) != want.get(k)}
                bad(f"{label}_qualifiers", f"(file, source) per key: {diff}")

        # order of children as the collection iterates them does not matter here: records are matched by content
        for g in spec["genes"]:
            strand = _sv(g["transcripts"][0]["strand"])
            lo = min(t["exon_starts"][0] for t in g["transcripts"])
            hi = max(t["exon_ends"][-1] for t in g["transcripts"])
            symbol = g.get("gene_symbol") or g.get("gene_id")
            locus = g.get("locus_tag") or symbol
            same_quals(take("gene", [(lo, hi)], strand, {"gene": symbol, "locus_tag": locus, "gene_id": g.get("gene_id")}, "gene"),
                       expected_record_qualifiers("gene", g, symbol, locus), "gene")
            for t in g["transcripts"]:
                ftype = _tx_feature_type(t)
                exons = list(zip(t["exon_starts"], t["exon_ends"]))
                need = {"gene": symbol, "locus_tag": locus, "transcript_id": t.get("transcript_id")}
                coding_feature = ftype == "mRNA" and t.get("cds_starts")
                if not (coding_feature and case["flavor"] == "PROKARYOTIC"):
                    f = take(ftype, exons, strand, need, "transcript")
                    same_quals(f, expected_record_qualifiers("transcript", t, symbol, locus), "transcript")
                    same_extract(f, exons, g["transcripts"][0]["strand"], "transcript")
                    if f is not None and "protein_id" in f["quals"]:
                        bad("protein_id_on_transcript_record")
                if coding_feature:
                    cds = list(zip(t["cds_starts"], t["cds_ends"]))
                    f = take("CDS", cds, strand, dict(need, protein_id=t.get("protein_id")), "cds")
                    same_quals(f, expected_record_qualifiers("cds", t, symbol, locus), "cds")
                    if f is not None:
                        f0 = {"ZERO": 0, "ONE": 1, "TWO": 2}[t["cds_frames"][0 if t["strand"] == "PLUS" else -1]]
                        cs = f["quals"].get("codon_start")
                        cs_i = int(cs[0]) if cs else 1
                        if cs_i != f0 + 1:
                            bad("codon_start", f"file={cs} source start frame {f0} strand {t['strand']} blocks {len(cds)}")
                        # independent extraction of the CDS: must be the source bases 5'->3'
                        pos = []
                        for s, e in sorted(cds):
                            pos.extend(range(s, e))
                        src = "".join(genome[p] for p in pos)
                        if t["strand"] == "MINUS":
                            src = specs.revcomp(src)
                        if f["extract"].upper() != src.upper():
                            bad("cds_extract_order", f"strand {t['strand']} blocks {len(cds)}")
                        tr = f["quals"].get("translation")
                        if case["update_translations"]:
                            ind = independent_translation(f["extract"], cs_i, case["flavor"])
                            if ind is None:
                                if tr:
                                    pass  # ambiguous bases: either outcome is documented
                            elif not tr or tr[0] != ind:
                                what = "translation_missing" if not tr else "translation_mismatch"
                                first = 0 if t["strand"] == "PLUS" else -1
                                if t["cds_ends"][first] - t["cds_starts"][first] <= f0 and f0 > 0:
                                    # the start offset is as long as or longer than the 5'-most CDS block (see known findings)
                                    what += "(start offset swallows the 5'-most CDS block)"
                                bad(what, (f"file={tr[0][:30]} independent={ind[:30]} " if tr else "") + f"codon_start={cs_i} source_frame={f0} strand {t['strand']}")
                        elif tr:
                            bad("translation_unrequested")
        for c in spec["feature_collections"]:
            strand = _sv(c["feature_intervals"][0]["strand"])
            lo = min(f["interval_starts"][0] for f in c["feature_intervals"])
            hi = max(f["interval_ends"][-1] for f in c["feature_intervals"])
            symbol = c.get("feature_collection_name") or c.get("feature_collection_id")
            same_quals(take("misc_feature", [(lo, hi)], strand, {"misc_feature": symbol}, "feature_collection"),
                       expected_record_qualifiers("feature_collection", c, symbol, c.get("locus_tag") or symbol), "feature_collection")
            for f_ in c["feature_intervals"]:
                fr = take("feat_interval", list(zip(f_["interval_starts"], f_["interval_ends"])), strand,
                          {"feature_name": f_.get("feature_name"), "feature_id": f_.get("feature_id")}, "feature")
                same_quals(fr, expected_record_qualifiers("feature", f_, symbol, None, container=c), "feature")
                same_extract(fr, list(zip(f_["interval_starts"], f_["interval_ends"])), c["feature_intervals"][0]["strand"], "feature")
        extra = [f["type"] for i, f in enumerate(feats) if i not in used]
        if extra:
            bad("extra_records", extra[:6])
    return fs


# ---------------------------------------------------------------------------------------------------------------
# oracle (b)/(c): BioCantor re-parse


def _merge_adjacent(starts, ends):
    out = []
    for s, e in sorted(zip(starts, ends)):
        if out and s <= out[-1][1]:
            out[-1][1] = max(out[-1][1], e)
        else:
            out.append([s, e])
    return out


def expected_parse(spec, flavor):
    genes = []
    for g in spec["genes"]:
        symbol = g.get("gene_symbol") or g.get("gene_id")
        locus = g.get("locus_tag") or symbol
        txs = []
        for t in g["transcripts"]:
            coding = bool(t.get("cds_starts")) and _tx_feature_type(t) == "mRNA"
            if coding and flavor == "PROKARYOTIC":
                exons = [list(x) for x in zip(t["cds_starts"], t["cds_ends"])]  # only the CDS structure is written
            else:
                exons = [list(x) for x in zip(t["exon_starts"], t["exon_ends"])]
            f0 = None
            if coding:
                f0 = t["cds_frames"][0 if t["strand"] == "PLUS" else -1]
            txs.append({"exons": exons, "cds": _merge_adjacent(t["cds_starts"], t["cds_ends"]) if coding else None, "strand": t["strand"], "start_frame": f0,
                        "protein_id": t.get("protein_id") if coding else None, "transcript_id": t.get("transcript_id")})
        genes.append({"gene_symbol": symbol, "locus_tag": locus, "transcripts": txs})
    return genes


def _got_gene(g):
    txs = []
    for t in g["transcripts"]:
        coding = t["cds_starts"] is not None
        f0 = None
        if coding:
            f0 = t["cds_frames"][0 if t["strand"] == "PLUS" else -1]
        txs.append({"exons": [list(x) for x in zip(t["exon_starts"], t["exon_ends"])],
                    "cds": _merge_adjacent(t["cds_starts"], t["cds_ends"]) if coding else None, "strand": t["strand"], "start_frame": f0,
                    "protein_id": t["protein_id"], "transcript_id": t["transcript_id"]})
    return {"gene_symbol": g["gene_symbol"], "locus_tag": g["locus_tag"], "transcripts": txs}


def check_reparse(case, imp):
    fs = []

    def bad(inv, what, detail="", **kw):
        fs.append(dict({"inv": inv, "what": what, "detail": str(detail)[:240], "flavor": case["flavor"]}, **kw))

    results = {}
    for mode in MODES:
        r = imp["modes"][mode]
        for label in ("short", "plain"):
            if isinstance(r[label], dict) and "error" in r[label]:
                bad("reparse", f"parse_raise:{r[label]['error']}", r[label].get("msg"), mode=mode)
        if r["short"] != r["plain"]:
            bad("short_read", "parse_depends_on_read_sizes", "", mode=mode)
        results[mode] = r["plain"]
    if not case["conditioned"]:
        return fs  # overlapping genes / isoforms: the grouping heuristics document that they cannot separate them
    for mode in MODES:
        got = results[mode]
        if isinstance(got, dict):
            continue
        by_name = {m["sequence_name"]: m for m in got}
        for spec in case["specs"]:
            m = by_name.get(spec["sequence_name"])
            if m is None:
                bad("reparse", "sequence_missing", spec["sequence_name"], mode=mode)
                continue
            if m["seq"] is None or m["seq"].upper() != spec["parent"]["genome"]["seq"].upper():
                bad("reparse", "sequence_not_recovered", "", mode=mode)
            exp = expected_parse(spec, case["flavor"])
            gg = sorted((_got_gene(g) for g in m["genes"]), key=lambda g: g["transcripts"][0]["exons"][0][0] if g["transcripts"] else -1)
            ee = sorted(exp, key=lambda g: g["transcripts"][0]["exons"][0][0])
            if len(gg) != len(ee):
                bad("reparse", "gene_count", f"{len(gg)} != {len(ee)}", mode=mode)
                continue
            for a, b in zip(gg, ee):
                for key in ("gene_symbol", "locus_tag"):
                    if a[key] != b[key]:
                        bad("reparse", key, f"{a[key]!r} != {b[key]!r}", mode=mode)
                if len(a["transcripts"]) != len(b["transcripts"]):
                    bad("reparse", "transcript_count", f"{len(a['transcripts'])} != {len(b['transcripts'])}", mode=mode)
                    continue
                skey = lambda t: json.dumps([t["cds"], t["exons"], t["start_frame"], t["protein_id"]], default=str)  # noqa: E731
                for ta, tb in zip(sorted(a["transcripts"], key=skey), sorted(b["transcripts"], key=skey)):
                    for key in ("exons", "cds", "strand", "start_frame", "protein_id"):
                        if ta[key] != tb[key]:
                            what = {"exons": "transcript_structure" if case["flavor"] == "EUKARYOTIC" or tb["cds"] is None else "cds_derived_structure",
                                    "cds": "cds_structure"}.get(key, key)
                            bad("reparse", what, f"{ta[key]!r} != {tb[key]!r} strand {tb['strand']}", mode=mode)
    # (c) mode agreement
    base = results["SORTED"]
    for mode in ("LOCUS_TAG", "HYBRID"):
        if results[mode] != base:
            bad("mode_agreement", f"SORTED!={mode}", "")
    return fs


# ---------------------------------------------------------------------------------------------------------------


def run_case(case):
    nd = node.nodes()
    a = nd.call(case["hs_a"], {"op": "c12.export", "case": case})
    stats = collections.Counter()
    fs = []
    if "build_error" in a:
        stats["invalid_spec"] += 1
        return fs, dict(stats), engine.plan_digest(a)
    if "t1_error" in a:
        fs.append({"inv": "export", "what": "raise:" + a["t1_error"], "detail": "", "flavor": case["flavor"]})
        return fs, dict(stats), engine.plan_digest(a)
    t1 = a["t1"]
    stats["exports"] += 1
    stats["flavor_" + case["flavor"]] += 1
    stats["conditioned"] += int(case["conditioned"])
    stats["with_translations"] += int(case["update_translations"])
    stats["W_max"] = a["W"]
    imp = nd.call(case["hs_b"], {"op": "c12.import", "text": t1, "reader_chunk": case["reader_chunk"], "prior_text": a.get("prior_text"),
                                 "sched_seed": case.get("sched_seed"), "read_faults": case.get("read_faults")})
    if "sched" in imp:
        stats["sched_episodes"] += 1
        stats["sched_steps"] += len(imp["schedule"])
        stats["sched_switches"] += sum(1 for x, y in zip(imp["schedule"], imp["schedule"][1:]) if x != y)
        stats["sched_abandoned_consumer"] += int(imp.get("sched_abandoned", False))
        for lb, got in imp["sched"].items():
            ref = imp["modes"][lb.split("#")[0]]["plain"]
            ref = {"error": ref["error"]} if isinstance(ref, dict) else ref
            if got != ref:
                fs.append({"inv": "interleaving", "what": "parse_depends_on_other_consumers", "mode": lb.split("#")[0], "detail": json.dumps(imp["schedule"])[:200], "flavor": case["flavor"]})
    if "read_faults" in imp:
        stats["read_fault_files"] += 1
        stats["read_fault_enumerated_all"] += int(imp.get("read_faults_all", False))
        for rec in imp["read_faults"]:
            stats["read_faults_fired"] += int(rec["fired"])
            stats["read_fault_" + rec["outcome"].split(":")[0]] += 1
            if rec["outcome"] == "returned_wrong":
                fs.append({"inv": "read_fault", "what": "returned_other_result_after_read_error", "detail": f"k={rec['k']}", "flavor": case["flavor"]})
    stats["stale_exporter"] += int("prior_text" in a)
    stats["warm_other"] += int(bool(a.get("warm_other")))
    stats["path_target"] += int(bool(a.get("target")))
    stats["stale_importer"] += int(bool(imp.get("prior_parsed")))
    stats["hashseed_differs"] += int(case["hs_a"] != case["hs_b"])
    stats["parses"] += 3
    stats["reader_reads"] += sum(imp["modes"][m].get("short_reads", 0) for m in MODES)
    fs.extend(check_biopython(case, imp))
    fs.extend(check_reparse(case, imp))
    # (e) the parsed model must not depend on the hash seed of the exporter: compare with an export made by B
    b = nd.call(case["hs_b"], {"op": "c12.export", "case": case, "mode": "plain"})
    if "t1" in b and b["t1"] != t1:
        imp_b = nd.call(case["hs_a"], {"op": "c12.import", "text": b["t1"], "reader_chunk": 256})
        stats["files_differing_in_text_across_hashseeds(qualifier order)"] += 1
        if imp_b["modes"] != imp["modes"] or imp_b.get("biopython") is None or _canon_bp(imp_b["biopython"]) != _canon_bp(imp["biopython"]):
            fs.append({"inv": "stable", "what": "parsed_model_depends_on_hashseed", "detail": "", "flavor": case["flavor"]})
    if case["faults"] and "faults" in a:
        stats["write_fault_files"] += 1
        stats["write_fault_enumerated_all"] += int(a.get("enumerated_all", False))
        for rec in a["faults"]:
            stats["write_faults_fired"] += 1
            if rec["outcome"] != "oserror":
                fs.append({"inv": "write_fault", "what": "not_propagated:" + rec["outcome"], "detail": "", "flavor": case["flavor"]})
            elif rec["n"] != rec["k"] - 1 or not rec["prefix_ok"]:
                fs.append({"inv": "write_fault", "what": "not_a_prefix", "detail": "", "flavor": case["flavor"]})
    stats["genes"] += sum(len(s["genes"]) for s in case["specs"])
    stats["minus_multiblock_cds"] += sum(1 for s in case["specs"] for g in s["genes"] for t in g["transcripts"]
                                         if t.get("cds_starts") and t["strand"] == "MINUS" and len(t["cds_starts"]) > 1)
    stats["nonzero_start_frame"] += sum(1 for s in case["specs"] for g in s["genes"] for t in g["transcripts"]
                                        if t.get("cds_starts") and t["cds_frames"][0 if t["strand"] == "PLUS" else -1] != "ZERO")
    uniq, seen = [], set()
    for f in fs:
        k = json.dumps({x: f[x] for x in f if x != "detail"}, sort_keys=True)
        if k not in seen:
            seen.add(k)
            uniq.append(f)
    return uniq, dict(stats), engine.plan_digest({"t1": t1, "modes": imp["modes"], "sched": imp.get("sched"), "schedule": imp.get("schedule"), "read_faults": imp.get("read_faults")})


def _canon_bp(recs):
    out = []
    for r in recs:
        feats = []
        for f in r["features"]:
            feats.append([f["type"], sorted(map(tuple, f["parts"])), f["strand"], sorted((k, tuple(sorted(v))) for k, v in f["quals"].items())])
        out.append([r["name"], r["seq"], feats])
    return out


def sig_key(f):
    return (f["inv"], f["what"], f.get("mode") if f["inv"] == "reparse" else None, f.get("flavor") if f["inv"] in ("reparse", "independent_reader") else None)


def run_one(item):
    seed, idx, tier = item
    case = gen_case(seed, idx, tier)
    fs, stats, h = run_case(case)
    return {"idx": idx, "digest": h, "plan_digest": engine.plan_digest(case), "stats": stats, "findings": fs}


def run_batch(tier, seed, runs=None, wall=None):
    cfg = TIERS[tier]
    runs = runs or int(os.environ.get("VERIF_RUNS", "0")) or cfg["runs"]
    items = [(seed, i, tier) for i in range(runs)]
    t0 = time.time()
    res = engine.pool_map(run_one, items, wall_cap=wall or cfg["wall"], fini=node.close_nodes)
    return {"results": [r for _, r in res], "wall": time.time() - t0, "hashseed": os.environ.get("PYTHONHASHSEED", "?"), "tier": tier}


def shrink_case(case, fails, max_tests=100):
    cur = copy.deepcopy(case)
    tests = 0
    changed = True
    while changed and tests < max_tests:
        changed = False
        cands = []
        if len(cur["specs"]) > 1:
            cands += [("coll", ci) for ci in range(len(cur["specs"]))]
        for ci, s in enumerate(cur["specs"]):
            if len(s["genes"]) + len(s["feature_collections"]) > 1:
                cands += [("gene", ci, gi) for gi in range(len(s["genes"]))]
                cands += [("fc", ci, fi) for fi in range(len(s["feature_collections"]))]
            for gi, g in enumerate(s["genes"]):
                if len(g["transcripts"]) > 1:
                    cands += [("tx", ci, gi, ti) for ti in range(len(g["transcripts"]))]
                if g.get("qualifiers"):
                    cands.append(("gq", ci, gi))
                for ti, t in enumerate(g["transcripts"]):
                    if t.get("qualifiers"):
                        cands.append(("tq", ci, gi, ti))
        if cur.get("faults"):
            cands.append(("nofaults",))
        for c in cands:
            trial = copy.deepcopy(cur)
            if c[0] == "coll":
                del trial["specs"][c[1]]
            elif c[0] == "gene":
                if len(trial["specs"][c[1]]["genes"]) <= 1:
                    continue
                del trial["specs"][c[1]]["genes"][c[2]]
            elif c[0] == "fc":
                del trial["specs"][c[1]]["feature_collections"][c[2]]
            elif c[0] == "tx":
                del trial["specs"][c[1]]["genes"][c[2]]["transcripts"][c[3]]
            elif c[0] == "gq":
                trial["specs"][c[1]]["genes"][c[2]]["qualifiers"] = None
            elif c[0] == "tq":
                trial["specs"][c[1]]["genes"][c[2]]["transcripts"][c[3]]["qualifiers"] = None
            elif c[0] == "nofaults":
                trial["faults"] = False
            tests += 1
            if fails(trial):
                cur = trial
                changed = True
                break
            if tests >= max_tests:
                break
    return cur


def minimise_and_write(seed, idx, finding, hashseed, tier="quick"):
    key = sig_key(finding)
    case = gen_case(seed, idx, tier)

    def fails(c):
        try:
            fs, _, _ = run_case(c)
        except Exception:
            return False
        return any(sig_key(f) == key for f in fs)

    small = shrink_case(case, fails)
    doc = {"check": PROP, "seed": seed, "run": idx, "hashseed": hashseed, "case": small,
           "expect": {"inv": finding["inv"], "what": finding["what"]}, "note": json.dumps(finding)[:500]}
    node.close_nodes()
    return engine.write_replay(PROP, doc)


def replay(doc):
    try:
        fs, _, _ = run_case(doc["case"])
    finally:
        node.close_nodes()
    exp = doc.get("expect") or {}
    hit = [f for f in fs if all(f.get(k) == v for k, v in exp.items())]
    return bool(hit), fs


def aggregate(batches, tier, seed, t0):
    known = engine.load_known()
    stats = collections.Counter()
    digests, nontrivial = set(), set()
    harness_errors, groups = [], {}
    nruns = 0
    for b in batches:
        for r in b["results"]:
            nruns += 1
            if "__harness_error__" in r:
                harness_errors.append(r)
                continue
            for k, v in r["stats"].items():
                if k.endswith("_max"):
                    stats[k] = max(stats[k], v)
                else:
                    stats[k] += v
            digests.add(r["plan_digest"])
            if r["stats"].get("exports"):
                nontrivial.add(r["plan_digest"])
            for f in r["findings"]:
                groups.setdefault(sig_key(f), []).append((b["hashseed"], r["idx"], f))
    violations, known_hits = [], collections.Counter()
    for key, insts in sorted(groups.items(), key=lambda kv: str(kv[0])):
        hs, idx, f = insts[0]
        k = engine.match_known(known, PROP, f)
        if k:
            known_hits[k["id"]] += len(insts)
        else:
            violations.append((key, hs, idx, f, len(insts)))
    return dict(stats=stats, plan_digests=digests, nontrivial=nontrivial, harness_errors=harness_errors, violations=violations,
                known_hits=known_hits, known=known, nruns=nruns, tier=tier)


def evidence(agg, tier, seed, wall, batches):
    st = agg["stats"]
    case = gen_case(seed, 0, tier)
    sample = {"run": 0, "flavor": case["flavor"], "update_translations": case["update_translations"], "conditioned(position-sorted, unique locus tags, one isoform per gene)": case["conditioned"],
              "exporter_hashseed": case["hs_a"], "importer_hashseed": case["hs_b"], "reader_chunk": case["reader_chunk"],
              "genes": [[g["gene_type"], g["gene_symbol"], g["locus_tag"], [[t["strand"], t["exon_starts"], t["exon_ends"], t.get("cds_starts"), t.get("cds_ends"), t.get("cds_frames")] for t in g["transcripts"]]]
                        for s in case["specs"] for g in s["genes"]][:4]}
    rph = agg["nruns"] / wall * 3600 if wall else 0
    return {
        "evaluations": agg["nruns"],
        "distinct_nontrivial": len(agg["nontrivial"]),
        "rule": "one evaluation = one export/import episode: node A writes 1-2 generated collections as GenBank through a SimDisk handle; "
                "node B (other hash seed) reads the bytes with Bio.SeqIO (independent reader) and with BioCantor's parser in all 3 grouping "
                "modes, each through a short-reading SimDisk reader and a plain one; B also exports and A parses B's file (hash-seed swap); "
                "in ~6% of episodes the disk fails at every write index, in ~9% at every read index of one parser mode (must raise or return the full result); "
                "in half of the episodes 2-4 lazy parser generators are stepped by a seeded cooperative scheduler (each must return what it returns alone). distinct = sha256 of the case; non-trivial = a file was produced and read.",
        "samples": [sample],
        "simulated_runs_per_hour": round(rph), "seeds_per_hour": round(rph),
        "simulated_time": "not applicable: no timers; one episode = 3-4 node requests, 6+ parses",
        "faults_fired": {
            "write_fault(k)": st["write_faults_fired"], "files_with_write_fault_enumeration": st["write_fault_files"],
            "files_where_every_k_was_enumerated": st["write_fault_enumerated_all"], "max_writes_per_file_W": st["W_max"],
            "short_read(reader chunking 1/16/256 chars)": st["parses"], "hashseed(importer differs)": st["hashseed_differs"],
            "stale_exporter(exported a strain twin earlier in the same process)": st["stale_exporter"],
            "same_objects_used_under_the_other_flavour_or_table_before_the_export": st["warm_other"],
            "writer_given_a_path_instead_of_a_handle": st["path_target"],
            "stale_importer(parsed another file earlier in the same process)": st["stale_importer"],
            "files_whose_text_differs_between_hash_seeds(set order of qualifiers)": st["files_differing_in_text_across_hashseeds(qualifier order)"],
            "interleaved_consumers(episodes where 2-4 lazy parsers were stepped by the seeded scheduler)": st["sched_episodes"],
            "scheduler_steps": st["sched_steps"], "scheduler_task_switches": st["sched_switches"],
            "abandoned_consumer(a parser closed in the middle of another file)": st["sched_abandoned_consumer"],
            "read_fault(k)": st["read_faults_fired"], "files_with_read_fault_enumeration": st["read_fault_files"],
            "files_where_every_read_index_was_enumerated": st["read_fault_enumerated_all"],
            "read_fault_outcomes": {k[11:]: v for k, v in st.items() if k.startswith("read_fault_") and k[11:] in ("oserror", "returned_full", "returned_wrong", "raise", "other_oserror")},
        },
        "reach_probes": {
            "genes": st["genes"], "minus_strand_multi_block_cds": st["minus_multiblock_cds"], "non_zero_start_frame_cds": st["nonzero_start_frame"],
            "conditioned_episodes(mode agreement + recovery asserted)": st["conditioned"], "episodes_with_translations": st["with_translations"],
            "flavors": {k[7:]: v for k, v in st.items() if k.startswith("flavor_")}, "library_parses(3 modes x 2 readers per episode)": st["parses"] * 2,
            "constructor_refused_spec": st["invalid_spec"],
        },
        "known_findings_hit": dict(agg["known_hits"]),
        "harness_errors": len(agg["harness_errors"]),
        "components_real": engine.REAL,
        "components_stub": engine.STUBS,
        "repo_head": engine.repo_head(),
    }


ASSUMPTIONS = [
    "the independent reader is Bio.SeqIO (third party, native API); the compat shim is needed only for BioCantor's own writer/parser calls into BioPython",
    "recovery and mode agreement are asserted only on conditioned files: non-overlapping genes in position order, unique locus tags, one isoform per gene (the grouping heuristics document that they cannot separate overlapping genes or coding isoforms)",
    "CDS structure is compared modulo merging of 0-bp-gap neighbours (the parser intersects the CDS with the transcript span, which merges adjacent blocks); exon structure is compared exactly",
    "independent translation: BioPython forward table, '*' for stops, first codon -> M when it is a start codon of table 11 (prokaryotic) / ATG (eukaryotic), no translation expected when the CDS has ambiguous bases",
    "qualifier order inside a feature is compared as a set (the writer emits list(set): order legitimately varies with the hash seed)",
]
