"""C11 - GFF3 export is well-formed and gene models survive export -> parse.

Simulated system: exporter node A (hash seed a) writes through a SimDisk handle (fault-free, then failing at every
write index); importer node B (hash seed b) parses the bytes A left on the disk (gffutils needs a path: the SimDisk
file is materialised under /dev/shm for the duration of the parse), reads the FASTA section through a chunking SimDisk
reader, and re-exports through its own SimDisk handle.

Oracles: (a) an independent 9-column reader + the tree of rows expected from the spec; (b) per-gene equality of the
re-parsed model with the spec under the documented export transformations; (c) byte equality of the re-export;
(d) fail-stop prefix behaviour under write faults; (e) identical bytes for a repeated export and across hash seeds."""
import collections
import copy
import json
import os
import re
import time
from urllib.parse import unquote

from bcsim import engine, node, specs

PROP = "C11"
LEVEL = "exploration"
TIERS = {
    "quick": dict(runs=640, wall=900, hashseeds=[0], node_seeds=[0, 1, 77, 4242], fault_p=0.12),
    "thorough": dict(runs=15000, wall=6 * 3600, hashseeds=[0], node_seeds=[0, 1, 2, 3, 5, 7, 11, 13, 77, 101, 1234, 4242, 9999, 31337, 65537, 99991], fault_p=0.12),
}
SPECIAL_VALS = ["a;b", "k=v", "50%", "100%25", "semi%3Bcolon", "tab\there", "new\nline", "cr\rhere", "two words", "x>y", "R&D", "it's", "café", "α-helix",
                "x,y", "UPPER", "  padded", "trailing ", "percent%", "%41", "=lead", ";", "a=b;c=d", "日本",
                # whitespace-only and placeholder-looking values (a writer that "cleans up" values must not eat them)
                " ", "\t", " \n ", "\u00a0", "nan", "None", ".", "-"]
PLAIN_VALS = specs.QUAL_VALS_PLAIN
SPECIAL_KEYS = ["k%", "a b", "semi;colon", "eq=k", "Über", "MixedCase", "tab\tk", "k>1", "k&r"]
PLAIN_KEYS = ["note", "db_xref", "inference", "function", "go_component", "old_locus_tag", "experiment", "kz"]
QUOTE_VALS = ['say "hi"', 'q"']  # writer leg only (gffutils cannot carry a double quote)
ID_SPECIALS = ["gene;1", "sym=2", "id%3", "tag 4", "p>5", "x,6", "naïve"]


# ---------------------------------------------------------------------------------------------------------------
# generation


def _quals(rng, parse_leg, p_none=0.3, max_keys=3):
    if rng.random() < p_none:
        return None
    q = {}
    for _ in range(rng.randint(1, max_keys)):
        k = rng.choice(SPECIAL_KEYS) if rng.random() < 0.2 else rng.choice(PLAIN_KEYS)
        if any(k.lower() == e.lower() for e in q):
            continue
        vals = []
        for _ in range(rng.randint(1, 3)):
            r = rng.random()
            if r < 0.45:
                v = rng.choice(SPECIAL_VALS)
            elif r < 0.5 and not parse_leg:
                v = rng.choice(QUOTE_VALS)
            else:
                v = rng.choice(PLAIN_VALS)
            if parse_leg and ("," in v or '"' in v):
                v = v.replace(",", "_").replace('"', "")
            if v not in vals:
                vals.append(v)
        q[k] = vals
    return q or None


def _ident(rng, base, p_special=0.12, parse_leg=False):
    if rng.random() < p_special:
        pre = rng.choice(ID_SPECIALS)
        if parse_leg:
            pre = pre.replace(",", ".")  # the re-parse leg excludes comma (a value separator) as the property says
        return pre + base
    return base


def gen_gene(rng, lo, hi, idx, seqname, parse_leg, tx_type_differs_p=0.15):
    strand = rng.choice(["PLUS", "MINUS"])
    ntx = rng.choice([1, 1, 2, 2, 3])
    txs = []
    for i in range(ntx):
        t = specs.gen_transcript(rng, lo, hi, idx=f"{idx}_{i}", strand=strand if rng.random() < 0.9 else None, seqname=seqname,
                                 coding_p=0.7, frameshift_p=0.1)
        t["qualifiers"] = _quals(rng, parse_leg)
        t["transcript_id"] = _ident(rng, f"tx{idx}_{i}", parse_leg=parse_leg) if rng.random() < 0.85 else None
        t["transcript_symbol"] = _ident(rng, f"TX{idx}_{i}", parse_leg=parse_leg) if rng.random() < 0.7 else None
        if t.get("protein_id"):
            t["protein_id"] = _ident(rng, t["protein_id"], parse_leg=parse_leg)
        if t.get("product") and rng.random() < 0.3:
            t["product"] = rng.choice(["kinase; putative", "50% identity", "α subunit", "DNA-binding protein"])
        txs.append(t)
    if not parse_leg and len(txs) > 1 and txs[0].get("cds_starts") and rng.random() < 0.08:
        # two isoforms sharing one CDS (common in real annotation): same blocks, frames, product, protein id
        t0, t1 = txs[0], txs[1]
        t1.update(exon_starts=[min(t0["exon_starts"][0], max(0, t0["cds_starts"][0] - 2))] + t0["exon_starts"][1:], exon_ends=list(t0["exon_ends"]),
                  strand=t0["strand"], cds_starts=list(t0["cds_starts"]), cds_ends=list(t0["cds_ends"]), cds_frames=list(t0["cds_frames"]),
                  product=t0.get("product"), protein_id=t0.get("protein_id"))
        if t1["exon_starts"][0] > t1["cds_starts"][0]:
            t1["exon_starts"][0] = t1["cds_starts"][0]
    coding = any(t.get("cds_starts") for t in txs)
    gtype = "protein_coding" if coding else rng.choice(specs.BIOTYPES_NONCODING)
    for t in txs:
        if rng.random() < tx_type_differs_p:
            t["transcript_type"] = rng.choice(["protein_coding"] + specs.BIOTYPES_NONCODING) if not t.get("cds_starts") else "protein_coding"
        else:
            t["transcript_type"] = gtype if rng.random() < 0.92 else None
    return {
        "transcripts": txs,
        "gene_id": _ident(rng, f"gene{idx}", parse_leg=parse_leg) if rng.random() < 0.85 else None,
        "gene_symbol": _ident(rng, f"GN{idx}", parse_leg=parse_leg) if rng.random() < 0.7 else None,
        "gene_type": gtype if rng.random() < 0.92 else None,
        "locus_tag": _ident(rng, f"LT_{idx}", parse_leg=parse_leg) if rng.random() < 0.6 else None,
        "qualifiers": _quals(rng, parse_leg),
        "sequence_name": seqname,
    }


def gen_fc(rng, lo, hi, idx, seqname):
    fc = specs.gen_feature_collection(rng, lo, hi, idx=idx, seqname=seqname)
    fc["qualifiers"] = _quals(rng, False)
    for f in fc["feature_intervals"]:
        f["qualifiers"] = _quals(rng, False)
    return fc


def gen_collection(rng, cidx, parse_leg, mode, names=("chrA", "chrB", "contig-3")):
    L = rng.choice([60, 120, 150, 299, 300])
    seqname = names[cidx]
    seq = specs.gen_seq(rng, L, with_n=rng.random() < 0.1, lower=rng.random() < 0.1)
    genes, fcs = [], []
    for g in range(rng.randint(1, 3)):
        lo = rng.randint(0, max(0, L - 14))
        hi = rng.randint(min(L, lo + 12), L)
        genes.append(gen_gene(rng, lo, hi, f"{cidx}{g}", seqname, parse_leg))
    if not parse_leg:
        for f in range(rng.choice([0, 1, 2])):
            lo = rng.randint(0, max(0, L - 10))
            hi = rng.randint(min(L, lo + 8), L)
            fcs.append(gen_fc(rng, lo, hi, f"{cidx}{f}", seqname))
    parent = {"mode": mode, "genome": {"id": seqname, "seq": seq, "alphabet": "NT_EXTENDED_GAPPED"}}
    if mode == "chunk":
        lo_all = min([min(t["exon_starts"][0] for t in g["transcripts"]) for g in genes] + [min(f["interval_starts"][0] for f in c["feature_intervals"]) for c in fcs])
        hi_all = max([max(t["exon_ends"][-1] for t in g["transcripts"]) for g in genes] + [max(f["interval_ends"][-1] for f in c["feature_intervals"]) for c in fcs])
        parent["chunk"] = [rng.randint(0, lo_all), rng.randint(hi_all, L)]
    return {"genes": genes, "feature_collections": fcs, "variant_collections": [], "name": None, "id": None, "sequence_name": seqname,
            "qualifiers": None, "start": None, "end": None, "completely_within": None, "parent": parent}


def make_lossless(spec, rng):
    """Rewrite a generated collection so that nothing the GFF3 mapping folds is used: then export -> parse -> export
    must reproduce the file byte for byte."""
    for gi, g in enumerate(spec["genes"]):
        g["gene_id"] = g["gene_id"] or f"gid{gi}"
        g["gene_type"] = g["gene_type"] or "protein_coding"
        gq = g.get("qualifiers") or {}
        g["qualifiers"] = {k.lower(): v for k, v in gq.items()} or None
        for ti, t in enumerate(g["transcripts"]):
            t["transcript_id"] = t["transcript_id"] or f"tid{gi}_{ti}"
            t["transcript_symbol"] = t["transcript_symbol"] or f"tsym{gi}_{ti}"
            t["transcript_type"] = t["transcript_type"] or g["gene_type"]
            t["is_primary_tx"] = None
            tq = {k.lower(): list(v) for k, v in (t.get("qualifiers") or {}).items()}
            for k, v in (g["qualifiers"] or {}).items():
                cur = tq.setdefault(k, [])
                for x in v:
                    if x not in cur:
                        cur.append(x)
            t["qualifiers"] = tq or None
    return spec


def make_twin(spec, rng):
    t = copy.deepcopy(spec)
    g = t["parent"]["genome"]
    g["seq"] = g["seq"].translate(str.maketrans("ACGTacgt", "CATGcatg"))
    for gene in t["genes"]:
        q = gene.get("qualifiers") or {}
        q["note"] = ["twin"]
        gene["qualifiers"] = q
    return t


def gen_case(seed, idx, tier="quick"):
    rng = engine.rng_for(seed, PROP, idx)
    cfg = TIERS[tier]
    parse_leg = rng.random() < 0.65
    mode = rng.choice(["chrom", "chrom", "chrom_noseq", "none", "chunk"])
    ncoll = rng.choice([1, 1, 2, 3])
    names = rng.choice([("chrA", "chrB", "contig-3"), ("chrB", "chrA", "contig-3"), ("contig-3", "chrB", "chrA"), ("seq10", "seq9", "Seq1")])
    colls = [gen_collection(rng, c, parse_leg, mode, names) for c in range(ncoll)]
    if parse_leg and rng.random() < 0.45:
        colls = [make_lossless(c, rng) for c in colls]
    args = {
        "add_sequences": mode in ("chrom", "chunk") and rng.random() < 0.5,
        # ordered=False (collections in input order) only on the writer leg: after a parse the input order is whatever
        # order the GFF3 database returns the sequences in, so byte identity of a re-export is only meaningful when ordered
        "ordered": True if parse_leg else rng.random() < 0.6,
        "chromosome_relative_coordinates": mode != "chunk",
        "raise_on_reserved_attributes": True,
    }
    if mode == "chunk" and not args["add_sequences"] and not parse_leg and rng.random() < 0.6:
        # a collection that lives on a sequence chunk exported in CHROMOSOME coordinates (the default of the writer; only
        # possible without the FASTA section): rows and phases are those of the chromosome view.  Writer leg only: gene and
        # feature-collection identifiers are digests of the CHUNK-relative location (a C07 matter), so a re-parsed file -
        # which knows no chunk - re-exports other IDs
        args["chromosome_relative_coordinates"] = True
    if not parse_leg and rng.random() < 0.2:
        # GFF3-reserved keys used as free qualifiers: ID / Name / Parent must be dropped (with a warning) when the caller
        # asks not to raise; the other reserved keys keep their case
        args["raise_on_reserved_attributes"] = False
        for c in colls:
            for g in c["genes"]:
                tgt = rng.choice([g] + g["transcripts"])
                q = tgt.get("qualifiers") or {}
                q[rng.choice(["ID", "Name", "Parent", "Note", "Dbxref"])] = ["reserved value"]
                tgt["qualifiers"] = q
    if not parse_leg and rng.random() < 0.15:
        for c in colls:
            for g in c["genes"]:
                q = g.get("qualifiers") or {}
                q.setdefault("function", []).append("")  # empty value: exported as 'nan'
                g["qualifiers"] = q
    seeds = cfg["node_seeds"]
    a = rng.choice(seeds)
    b = rng.choice([s for s in seeds if s != a] or seeds)
    # earlier activity in the same exporter / importer process: another caller exported (and another file was parsed)
    # a "strain twin" first - same annotation, same names, other bases and coordinates shifted by one exon
    prior = None
    if rng.random() < 0.35:
        prior = [make_twin(colls[0], rng)]
    return {"specs": colls, "args": args, "parse_leg": parse_leg, "hs_a": a, "hs_b": b, "faults": rng.random() < cfg["fault_p"],
            "reader_chunk": rng.choice([1, 7, 64, 4096]), "warm": rng.random() < 0.4, "prior": prior,
            # schedule of the importer's cooperating consumers (bcsim/coop.py); read-fault enumeration on the handle-taking reader
            "sched_seed": rng.randrange(2 ** 31) if rng.random() < 0.5 else None, "read_faults": rng.random() < 0.5,
            "rewrite_same_path": rng.random() < 0.5}


# ---------------------------------------------------------------------------------------------------------------
# node side


def _export(colls, args, writer):
    from inscripta.biocantor.io.gff3.writer import collection_to_gff3

    collection_to_gff3(colls, writer, add_sequences=args["add_sequences"], ordered=args["ordered"],
                       chromosome_relative_coordinates=args["chromosome_relative_coordinates"],
                       raise_on_reserved_attributes=args["raise_on_reserved_attributes"])


def h_export(req):
    import warnings
    from bcsim import build, simdisk

    warnings.simplefilter("ignore")
    out = {"hashseed": os.environ.get("PYTHONHASHSEED")}
    try:
        colls = [build.build_collection(s)[0] for s in req["specs"]]
    except Exception as e:
        return {"build_error": type(e).__name__}
    if req.get("prior"):
        try:
            pw = simdisk.SimWriter()
            _export([build.build_collection(sp)[0] for sp in req["prior"]], req["args"], pw)
            out["prior_text"] = pw.getvalue()
        except Exception as e:
            out["prior_error"] = type(e).__name__
    w = simdisk.SimWriter()
    try:
        _export(colls, req["args"], w)
        out["t1"] = w.chunks
    except Exception as e:
        out["t1_error"] = type(e).__name__
        return out
    if req.get("mode") == "plain":
        return out
    # repeat export on the same objects after other accessors ran
    if req.get("warm"):
        for c in colls:
            try:
                c.to_dict()
                hash(c)
                [t.get_spliced_sequence() for g in c.genes for t in g.transcripts]
                [t.cds.chunk_relative_codon_locations for g in c.genes for t in g.transcripts if t.cds]
                [g.get_merged_transcript() for g in c.genes]
            except Exception:
                pass
        # ... after an export of the same objects with the other switches, and after exporting a query result of each
        a = req["args"]
        for flipped in (dict(a, raise_on_reserved_attributes=not a["raise_on_reserved_attributes"]),
                        dict(a, chromosome_relative_coordinates=not a["chromosome_relative_coordinates"], add_sequences=False),
                        dict(a, ordered=not a["ordered"])):
            try:
                _export(colls, flipped, simdisk.SimWriter())
            except Exception:
                pass
        for c in colls:
            try:
                sub = c.query_by_position(c.start, c.end, completely_within=False)
                _export([sub], dict(a, add_sequences=False), simdisk.SimWriter())
            except Exception:
                pass
    w2 = simdisk.SimWriter()
    try:
        _export(colls, req["args"], w2)
        out["t2"] = w2.chunks
    except Exception as e:
        out["t2_error"] = type(e).__name__
    if req.get("faults"):
        W = len(out["t1"])
        faults = []
        for k in range(1, W + 1):
            fw = simdisk.SimWriter(fail_at=k)
            rec = {"k": k}
            try:
                _export(colls, req["args"], fw)
                rec["outcome"] = "returned"
            except OSError:
                rec["outcome"] = "oserror" if fw.fired else "other_oserror"
            except Exception as e:
                rec["outcome"] = "raise:" + type(e).__name__
            rec["n"] = len(fw.chunks)
            rec["prefix_ok"] = fw.chunks == out["t1"][: len(fw.chunks)]
            faults.append(rec)
        out["faults"] = faults
        out["W"] = W
    return out


def _model_summary(coll):
    """What the re-parsed collection says about every gene, as spec-shaped plain data."""
    genes = []
    for g in coll.genes:
        txs = []
        for t in g.transcripts:
            txs.append({
                "exon_starts": list(t._genomic_starts), "exon_ends": list(t._genomic_ends),
                "cds_starts": list(t.cds._genomic_starts) if t.cds else None, "cds_ends": list(t.cds._genomic_ends) if t.cds else None,
                "cds_frames": [f.name for f in t.cds.frames] if t.cds else None,
                "strand": t.strand.name,
                "transcript_id": t.transcript_id, "transcript_symbol": t.transcript_symbol,
                "transcript_type": t.transcript_type.name if t.transcript_type else None,
                "protein_id": t.protein_id, "product": t.product, "is_primary_tx": t._is_primary_feature,
                "qualifiers": {k: sorted(v) for k, v in t.qualifiers.items()} or None,
                "has_sequence": bool(t.has_sequence),
                "spliced": str(t.get_spliced_sequence()) if t.has_sequence else None,
            })
        genes.append({
            "gene_id": g.gene_id, "gene_symbol": g.gene_symbol, "gene_type": g.gene_type.name if g.gene_type else None, "locus_tag": g.locus_tag,
            "qualifiers": {k: sorted(v) for k, v in g.qualifiers.items()} or None, "transcripts": txs, "sequence_name": g.sequence_name,
        })
    return {"sequence_name": coll.sequence_name, "genes": genes, "feature_collections": [], "n_fcs": len(coll.feature_collections)}


def h_import(req):
    """Importer node: parse the bytes found on the disk, re-export."""
    import warnings
    import logging
    from bcsim import simdisk
    import random as _r

    warnings.simplefilter("ignore")
    logging.disable(logging.CRITICAL)
    from inscripta.biocantor.io.gff3.parser import parse_standard_gff3, parse_gff3_embedded_fasta, extract_seqrecords_from_gff3_fasta
    from inscripta.biocantor.io.parser import ParsedAnnotationRecord

    text = req["text"]
    out = {"hashseed": os.environ.get("PYTHONHASHSEED")}
    if req.get("prior_text"):
        # a long-lived importer: it parsed another file earlier in this process
        ppath = simdisk.materialise(req["prior_text"], suffix=".gff3")
        try:
            list(ParsedAnnotationRecord.parsed_annotation_records_to_model(
                list(parse_gff3_embedded_fasta(ppath) if req["fasta"] else parse_standard_gff3(ppath))))
            out["prior_parsed"] = True
        except Exception as e:
            out["prior_parse_error"] = type(e).__name__
        finally:
            if not req.get("rewrite_same_path"):
                os.unlink(ppath)
                ppath = None
    else:
        ppath = None
    # the file under test may live under the very name the earlier file had (rewritten in place)
    path = simdisk.materialise(text, suffix=".gff3", path=ppath)
    out["rewritten_in_place"] = ppath is not None
    try:
        try:
            if req["fasta"]:
                recs = list(parse_gff3_embedded_fasta(path))
            else:
                recs = list(parse_standard_gff3(path))
            colls = list(ParsedAnnotationRecord.parsed_annotation_records_to_model(recs))
        except Exception as e:
            out["parse_error"] = type(e).__name__
            out["parse_error_msg"] = str(e)[:200]
            return out
    finally:
        os.unlink(path)
    out["models"] = [_model_summary(c) for c in colls]
    if req["fasta"]:
        # the handle-taking FASTA extractor, through a reader that returns short reads
        rng = _r.Random(req.get("reader_seed", 1))
        try:
            rd = simdisk.SimReader(text, rng=rng, max_chunk=req.get("reader_chunk", 64))
            seqs = extract_seqrecords_from_gff3_fasta(rd)
            out["fasta_short_read"] = [[r.id, str(r.seq)] for r in seqs]
            out["short_reads"] = rd.short_reads
            rd2 = simdisk.SimReader(text)
            out["fasta_plain"] = [[r.id, str(r.seq)] for r in extract_seqrecords_from_gff3_fasta(rd2)]
        except Exception as e:
            out["fasta_error"] = type(e).__name__
        if req.get("read_faults") and "fasta_plain" in out:
            R = rd2.reads
            ks = list(range(1, R + 1))
            if R > 80:
                ks = ks[:30] + ks[30:-30:max(1, (R - 60) // 20)] + ks[-30:]
            rf = []
            for k in ks:
                rd3 = simdisk.SimReader(text, fail_at=k)
                try:
                    got = [[r.id, str(r.seq)] for r in extract_seqrecords_from_gff3_fasta(rd3)]
                    outcome = "returned_full" if got == out["fasta_plain"] else "returned_wrong"
                except OSError:
                    outcome = "oserror" if rd3.fired else "other_oserror"
                except Exception as e:
                    outcome = "raise:" + type(e).__name__
                rf.append({"k": k, "outcome": outcome, "fired": rd3.fired})
            out["read_faults"] = rf
    if req.get("sched_seed") is not None:
        # several consumers of this importer step their (lazy) parsers in a seed-chosen interleaving; one of them may be
        # reading the other file and walk away in the middle of it
        from bcsim import coop

        srng = _r.Random(req["sched_seed"])
        pf = parse_gff3_embedded_fasta if req["fasta"] else parse_standard_gff3
        paths = []
        makers = []
        for i in range(srng.choice([2, 3])):
            pth = simdisk.materialise(text, suffix=".gff3")
            paths.append(pth)
            makers.append((f"own#{i}", (lambda pth=pth: pf(pth))))
        abandon = {}
        if req.get("prior_text"):
            pth = simdisk.materialise(req["prior_text"], suffix=".gff3")
            paths.append(pth)
            makers.append(("prior", lambda pth=pth: pf(pth)))
            abandon["prior"] = srng.choice([0, 1, 1, 99])
        try:
            res, schedule = coop.run_tasks(makers, srng, abandon)
        finally:
            for pth in paths:
                os.unlink(pth)
        sched = {}
        for lb, r in res.items():
            if lb == "prior":
                continue
            if r["error"]:
                sched[lb] = {"error": r["error"].split(":")[0]}
                continue
            try:
                sched[lb] = [_model_summary(c) for c in ParsedAnnotationRecord.parsed_annotation_records_to_model(r["items"])]
            except Exception as e:
                sched[lb] = {"error": type(e).__name__}
        out["sched"] = sched
        out["schedule"] = schedule
        out["sched_abandoned"] = bool(res.get("prior", {}).get("abandoned"))
    w = simdisk.SimWriter()
    try:
        _export(colls, dict(req["args"], chromosome_relative_coordinates=True), w)
        out["reexport"] = w.getvalue()
    except Exception as e:
        out["reexport_error"] = type(e).__name__
    return out


# ---------------------------------------------------------------------------------------------------------------
# independent reader


def decode(s):
    return unquote(s, encoding="utf-8", errors="strict")


def parse_gff3(text):
    """Independent GFF3 reader.  Returns (rows, directives, fasta: {id: seq}).  Raises ValueError on malformed
    syntax."""
    rows, directives, fasta = [], [], {}
    lines = text.split("\n")
    i = 0
    in_fasta = False
    cur = None
    while i < len(lines):
        line = lines[i]
        i += 1
        if in_fasta:
            if line.startswith(">"):
                cur = line[1:].split()[0] if line[1:].split() else ""
                if cur in fasta:
                    raise ValueError(f"duplicate FASTA record {cur}")
                fasta[cur] = ""
            elif line.strip():
                if cur is None:
                    raise ValueError("FASTA sequence before header")
                fasta[cur] += line.strip()
            continue
        if line == "":
            continue
        if line.startswith("##FASTA"):
            in_fasta = True
            continue
        if line.startswith("#"):
            directives.append(line)
            continue
        cols = line.split("\t")
        if len(cols) != 9:
            raise ValueError(f"line {i}: {len(cols)} columns")
        seqid, source, ftype, start, end, score, strand, phase, attrs = cols
        if not re.fullmatch(r"[0-9]+", start) or not re.fullmatch(r"[0-9]+", end):
            raise ValueError(f"line {i}: start/end not integers: {start} {end}")
        if strand not in "+-.?" or len(strand) != 1:
            raise ValueError(f"line {i}: strand {strand!r}")
        if phase not in (".", "0", "1", "2"):
            raise ValueError(f"line {i}: phase {phase!r}")
        ad = collections.OrderedDict()
        if attrs.strip():
            for pair in attrs.split(";"):
                if "=" not in pair:
                    raise ValueError(f"line {i}: attribute without '=': {pair!r}")
                k, v = pair.split("=", 1)
                if "=" in v:
                    raise ValueError(f"line {i}: unescaped '=' in value {v!r}")
                dk = decode(k)
                if dk in ad:
                    raise ValueError(f"line {i}: duplicate attribute key {dk!r}")
                ad[dk] = [decode(x) for x in v.split(",")]
        rows.append({"seqid": decode(seqid), "source": source, "type": ftype, "start": int(start), "end": int(end), "score": score,
                     "strand": strand, "phase": phase, "attrs": ad, "line": i, "raw_attrs": attrs})
    return rows, directives, fasta


# ---------------------------------------------------------------------------------------------------------------
# expected content from the spec (documented export transformations)

RESERVED_CASE = {"Alias", "Target", "Dbxref", "Gap", "Derives_from", "Note", "Ontology_term"}
SYM = {"PLUS": "+", "MINUS": "-", "UNSTRANDED": "."}
PHASE = {"ZERO": "0", "ONE": "2", "TWO": "1"}


def _k(key):
    return key if key in RESERVED_CASE else key.lower()


def _vals(values):
    out = set()
    for v in values:
        v = str(v)
        if v == "":
            out.add("nan")
        else:
            out.update(v.split(","))  # a comma inside a value is, as documented, a value separator
    return out


def _merge(*dicts):
    out = {}
    for d in dicts:
        for k, v in (d or {}).items():
            out.setdefault(k, set()).update(v)
    return out


def _q(quals):
    # ID / Name / Parent used as free qualifiers are never emitted (dropped with a warning, or the export raises)
    return {_k(k): _vals(v) for k, v in (quals or {}).items() if k not in ("ID", "Name", "Parent") and v}


def _add(d, key, val):
    if val:
        d.setdefault(key, set()).update(_vals([val]))


def expected_gene(g, off=0, chunk_mode=False):
    ga = _q(g.get("qualifiers"))
    _add(ga, "gene_id", g.get("gene_id"))
    _add(ga, "gene_name", g.get("gene_symbol"))
    _add(ga, "gene_biotype", g.get("gene_type") or "unspecified")
    _add(ga, "locus_tag", g.get("locus_tag"))
    lo = min(t["exon_starts"][0] for t in g["transcripts"])
    hi = max(t["exon_ends"][-1] for t in g["transcripts"])
    exp = {"type": "gene", "start": lo + 1 - off, "end": hi - off, "strand": "+", "name": g.get("gene_symbol"), "attrs": ga, "txs": []}
    for t in g["transcripts"]:
        ta = _merge(_q(t.get("qualifiers")), ga)
        _add(ta, "transcript_id", t.get("transcript_id"))
        _add(ta, "transcript_name", t.get("transcript_symbol"))
        _add(ta, "transcript_biotype", t.get("transcript_type") or "unspecified")
        _add(ta, "protein_id", t.get("protein_id"))
        tx = {"type": "transcript", "start": t["exon_starts"][0] + 1 - off, "end": t["exon_ends"][-1] - off, "strand": SYM[t["strand"]],
              "name": t.get("transcript_symbol"), "attrs": ta,
              "exons": [[s + 1 - off, e - off] for s, e in zip(t["exon_starts"], t["exon_ends"])], "cds": []}
        if t.get("cds_starts"):
            ca = _merge(ta)
            _add(ca, "protein_id", t.get("protein_id"))
            _add(ca, "product", t.get("product"))
            tx["cds_attrs"] = ca
            tx["cds_name"] = t.get("protein_id")
            frames = t["cds_frames"]
            if chunk_mode:
                # documented: chunk-relative frames are re-derived from the 5' frame (programmed frameshifts are lost)
                f0 = {"ZERO": 0, "ONE": 1, "TWO": 2}[frames[0 if t["strand"] == "PLUS" else -1]]
                frames = specs.frames_for(t["cds_starts"], t["cds_ends"], t["strand"], f0)
            tx["cds"] = [[s + 1 - off, e - off, PHASE[f]] for s, e, f in zip(t["cds_starts"], t["cds_ends"], frames)]
        exp["txs"].append(tx)
    return exp


def expected_fc(c, off=0):
    ca = _q(c.get("qualifiers"))
    _add(ca, "feature_collection_id", c.get("feature_collection_id"))
    _add(ca, "feature_collection_name", c.get("feature_collection_name"))
    _add(ca, "locus_tag", c.get("locus_tag"))
    _add(ca, "feature_collection_type", c.get("feature_collection_type"))
    types = set()
    for f in c["feature_intervals"]:
        types.update(f.get("feature_types") or [])
    base = {k: set(v) for k, v in ca.items()}
    if types:
        ca["feature_type"] = _vals(types)
    lo = min(f["interval_starts"][0] for f in c["feature_intervals"])
    hi = max(f["interval_ends"][-1] for f in c["feature_intervals"])
    exp = {"type": "biological_region", "start": lo + 1 - off, "end": hi - off, "strand": "+", "name": c.get("feature_collection_name"), "attrs": ca, "feats": []}
    for f in c["feature_intervals"]:
        fa = _merge(_q(f.get("qualifiers")), ca)
        _add(fa, "feature_name", f.get("feature_name"))
        _add(fa, "feature_id", f.get("feature_id"))
        if f.get("feature_types"):
            fa["feature_type"] = _vals(f["feature_types"])
        exp["feats"].append({"type": "feature_interval", "start": f["interval_starts"][0] + 1 - off, "end": f["interval_ends"][-1] - off,
                             "strand": SYM[f["strand"]], "name": f.get("feature_name"), "attrs": fa,
                             "regions": [[s + 1 - off, e - off] for s, e in zip(f["interval_starts"], f["interval_ends"])]})
    return exp


def _attrs_of(row):
    return {k: set(v) for k, v in row["attrs"].items() if k not in ("ID", "Parent", "Name")}


def _name_of(row):
    v = row["attrs"].get("Name")
    return None if v is None else ",".join(v)


def _canon_exp_name(n):
    return None if n is None else (n if n != "" else "nan")


def _file_sequence(spec):
    """The sequence a file exported from this spec carries: the chromosome, or - for a collection on a sequence chunk,
    which can only be exported in chunk-relative coordinates when sequences are asked for - the chunk itself."""
    par = spec["parent"]
    seq = par["genome"]["seq"]
    if par["mode"] == "chunk":
        a, b = par["chunk"]
        return seq[a:b]
    return seq


def check_wellformed(text, case):
    """Oracle (a): syntax + the tree of rows equals the tree expected from the spec."""
    fs = []

    def bad(what, detail=""):
        fs.append({"inv": "wellformed", "what": what, "detail": str(detail)[:240]})

    try:
        rows, directives, fasta = parse_gff3(text)
    except Exception as e:
        bad("syntax", e)
        return fs, None
    args = case["args"]
    if not directives or directives[0] != "##gff-version 3":
        bad("version_header", directives[:1])
    ids = {}
    last_start = {}
    for r in rows:
        if r["start"] > r["end"]:
            bad("start_gt_end", r["line"])
        if r["start"] < 1:
            bad("start_lt_1", r["line"])
        if r["phase"] != "." and r["type"] != "CDS":
            bad("phase_on_non_cds", r["type"])
        if r["type"] == "CDS" and r["phase"] == ".":
            bad("cds_without_phase", r["line"])
        rid = r["attrs"].get("ID")
        if rid is None or len(rid) != 1:
            bad("id_missing_or_multi", r["line"])
        else:
            if rid[0] in ids:
                bad("duplicate_id_identical_content" if _has_identical_twins(case) else "duplicate_id", rid[0][:40])
            ids[rid[0]] = r
        par = r["attrs"].get("Parent")
        if par is not None:
            for p in par:
                if p not in ids or ids[p] is r:
                    bad("parent_unresolved_or_later", r["type"])
        if r["seqid"] in last_start and r["start"] < last_start[r["seqid"]]:
            bad("rows_not_sorted_by_start", r["line"])
        last_start[r["seqid"]] = r["start"]
    seq_order = []
    for r in rows:
        if not seq_order or seq_order[-1] != r["seqid"]:
            seq_order.append(r["seqid"])
    if len(set(seq_order)) != len(seq_order):
        bad("sequences_interleaved", seq_order)
    want_order = [sp["sequence_name"] for sp in case["specs"]]
    if args["ordered"]:
        want_order = sorted(want_order)
    if seq_order != [n for n in want_order if n in seq_order]:
        bad("sequence_order", f"{seq_order} != {want_order} ordered={args['ordered']}")
    if args["add_sequences"] and list(fasta) != want_order:
        bad("fasta_order", f"{list(fasta)} != {want_order}")
    # tree per sequence
    by_parent = collections.defaultdict(list)
    tops = collections.defaultdict(list)
    for r in rows:
        par = r["attrs"].get("Parent")
        if par:
            by_parent[par[0]].append(r)
        else:
            tops[r["seqid"]].append(r)
    for spec in case["specs"]:
        off = spec["parent"]["chunk"][0] if (spec["parent"]["mode"] == "chunk" and not args["chromosome_relative_coordinates"]) else 0
        consistent = {}
        exp_tops = [expected_gene(g, off, chunk_mode=not args["chromosome_relative_coordinates"]) for g in spec["genes"]] + [expected_fc(c, off) for c in spec["feature_collections"]]
        got_tops = list(tops.get(spec["sequence_name"], []))
        if len(got_tops) != len(exp_tops):
            bad("top_level_count", f"{len(got_tops)} != {len(exp_tops)} on {spec['sequence_name']}")
            continue
        used = set()
        for exp in exp_tops:
            cand = [i for i, r in enumerate(got_tops) if i not in used and r["type"] == exp["type"] and r["start"] == exp["start"] and r["end"] == exp["end"]
                    and _attrs_of(r) == exp["attrs"] and _name_of(r) == _canon_exp_name(exp["name"])]
            if not cand:
                near = [r for i, r in enumerate(got_tops) if i not in used and r["type"] == exp["type"]]
                bad(_why_top(exp, near), f"expected {exp['type']} {exp['start']}-{exp['end']} name={exp['name']!r}")
                continue
            # among equal candidates pick the one whose subtree matches
            hit = None
            for i in cand:
                sub = _check_subtree(got_tops[i], exp, by_parent, spec, args)
                if not sub:
                    hit = i
                    break
            if hit is None:
                for f in _check_subtree(got_tops[cand[0]], exp, by_parent, spec, args):
                    bad(*f)
                used.add(cand[0])
            else:
                used.add(hit)
            if got_tops[cand[0]]["strand"] != exp["strand"] or got_tops[cand[0]]["seqid"] != spec["sequence_name"]:
                bad("top_strand_or_seqid", got_tops[cand[0]]["strand"])
    # sequence-region + FASTA
    if args["add_sequences"]:
        for spec in case["specs"]:
            seq = _file_sequence(spec)
            want = f"##sequence-region {spec['sequence_name']} 1 {len(seq)}"
            if want not in directives:
                bad("sequence_region_header", want)
            if fasta.get(spec["sequence_name"]) != seq:
                bad("fasta_sequence", spec["sequence_name"])
    elif fasta:
        bad("unexpected_fasta")
    return fs, rows


def _has_identical_twins(case):
    """IDs are content digests: two entities of one level with identical content (e.g. two isoforms sharing one CDS, with
    the same product and protein id) necessarily get the same ID.  True if the spec contains such twins."""
    def dup(keys):
        seen = set()
        for k in keys:
            k = json.dumps(k, sort_keys=True, default=str)
            if k in seen:
                return True
            seen.add(k)
        return False

    cds, txs, genes, feats, fcs = [], [], [], [], []
    for sp in case["specs"]:
        for g in sp["genes"]:
            genes.append([sp["sequence_name"], g])
            for t in g["transcripts"]:
                txs.append([sp["sequence_name"], t])
                if t.get("cds_starts"):
                    cds.append([sp["sequence_name"], t["cds_starts"], t["cds_ends"], t["strand"], t["cds_frames"], t.get("product"), t.get("protein_id")])
        for c in sp["feature_collections"]:
            fcs.append([sp["sequence_name"], c])
            for f in c["feature_intervals"]:
                feats.append([sp["sequence_name"], f])
    return any(dup(x) for x in (cds, txs, genes, feats, fcs))


def _why_top(exp, near):
    for r in near:
        if r["start"] == exp["start"] and r["end"] == exp["end"]:
            if _name_of(r) != _canon_exp_name(exp["name"]):
                return f"{exp['type']}_name"
            a = _attrs_of(r)
            if set(a) != set(exp["attrs"]):
                return f"{exp['type']}_attr_keys"
            return f"{exp['type']}_attr_values"
    return f"{exp['type']}_coordinates"


def _check_subtree(row, exp, by_parent, spec, args):
    out = []
    rid = row["attrs"]["ID"][0] if row["attrs"].get("ID") else None
    kids = list(by_parent.get(rid, []))
    if exp["type"] == "gene":
        exp_kids = exp["txs"]
        ktype = "transcript"
    else:
        exp_kids = exp["feats"]
        ktype = "feature_interval"
    got = [k for k in kids if k["type"] == ktype]
    if len(got) != len(exp_kids) or len(got) != len(kids):
        return [("child_count", f"{exp['type']}: {len(kids)} children, {len(got)} of type {ktype}, expected {len(exp_kids)}")]
    used = set()
    for ek in exp_kids:
        best = None
        for i, k in enumerate(got):
            if i in used:
                continue
            probs = _check_tx(k, ek, by_parent) if ktype == "transcript" else _check_feat(k, ek, by_parent)
            if not probs:
                best = (i, [])
                break
            if best is None or len(probs) < len(best[1]):
                best = (i, probs)
        used.add(best[0])
        out.extend(best[1])
    return out


def _basic(k, ek, label):
    p = []
    if (k["start"], k["end"]) != (ek["start"], ek["end"]):
        p.append((f"{label}_coordinates", f"{k['start']}-{k['end']} != {ek['start']}-{ek['end']}"))
    if k["strand"] != ek["strand"]:
        p.append((f"{label}_strand", f"{k['strand']} != {ek['strand']}"))
    if _name_of(k) != _canon_exp_name(ek["name"]):
        p.append((f"{label}_name", f"{_name_of(k)!r} != {ek['name']!r}"))
    a = _attrs_of(k)
    if a != ek["attrs"]:
        ks = set(a) ^ set(ek["attrs"])
        p.append((f"{label}_attr_keys" if ks else f"{label}_attr_values", str(sorted(ks) or [(x, sorted(a[x]), sorted(ek['attrs'][x])) for x in a if a[x] != ek['attrs'][x]][:2])))
    return p


def _check_tx(k, ek, by_parent):
    p = _basic(k, ek, "transcript")
    rid = k["attrs"]["ID"][0] if k["attrs"].get("ID") else None
    kids = by_parent.get(rid, [])
    exons = [r for r in kids if r["type"] == "exon"]
    cds = [r for r in kids if r["type"] == "CDS"]
    if len(exons) + len(cds) != len(kids):
        p.append(("transcript_child_types", [r["type"] for r in kids][:6]))
    if sorted([r["start"], r["end"]] for r in exons) != sorted(ek["exons"]):
        p.append(("exon_coordinates", f"{sorted([r['start'], r['end']] for r in exons)} != {sorted(ek['exons'])}"))
    if sorted([r["start"], r["end"], r["phase"]] for r in cds) != sorted(ek["cds"]):
        a, b = sorted([r["start"], r["end"]] for r in cds), sorted(c[:2] for c in ek["cds"])
        p.append(("cds_coordinates" if a != b else "cds_phase", f"{sorted([r['start'], r['end'], r['phase']] for r in cds)} != {sorted(ek['cds'])} strand {ek['strand']}"))
    for r in exons:
        if r["strand"] != ek["strand"]:
            p.append(("exon_strand", r["strand"]))
        if _attrs_of(r) != ek["attrs"] or _name_of(r) != _canon_exp_name(ek["name"]):
            p.append(("exon_attrs", ""))
            break
    for r in cds:
        if r["strand"] != ek["strand"]:
            p.append(("cds_strand", r["strand"]))
        if _attrs_of(r) != ek.get("cds_attrs") or _name_of(r) != _canon_exp_name(ek.get("cds_name")):
            p.append(("cds_attrs", str(sorted(set(_attrs_of(r)) ^ set(ek.get("cds_attrs") or {})))))
            break
    return p


def _check_feat(k, ek, by_parent):
    p = _basic(k, ek, "feature")
    rid = k["attrs"]["ID"][0] if k["attrs"].get("ID") else None
    kids = by_parent.get(rid, [])
    regs = [r for r in kids if r["type"] == "subregion"]
    if len(regs) != len(kids):
        p.append(("feature_child_types", [r["type"] for r in kids][:6]))
    if sorted([r["start"], r["end"]] for r in regs) != sorted(ek["regions"]):
        p.append(("subregion_coordinates", ""))
    for r in regs:
        if r["strand"] != ek["strand"] or _attrs_of(r) != ek["attrs"]:
            p.append(("subregion_attrs_or_strand", ""))
            break
    return p


# ---------------------------------------------------------------------------------------------------------------
# oracle (b): the re-parsed model vs the spec

FILTER_RE = None


def _filtered(key):
    """Keys the parser documents as extracted into identifiers (removed from the free qualifiers)."""
    names = ["transcript_id", "transcript_name", "transcript_type", "transcript_biotype", "protein_id", "product", "gene_id", "gene_symbol",
             "gene_name", "gene_type", "gene_biotype", "feature_id", "feature_name", "feature_symbol", "feature_collection_name",
             "feature_collection_id", "feature_colletion_type", "feature_collection_type", "feature_type", "locus_tag", "name", "parent", "id",
             "Name", "Parent", "ID"]
    return any(key.startswith(n) for n in names)


def expected_model(spec, off=0, chunk_mode=False):
    """The spec as the parser is documented to return it (spec-shaped)."""
    genes = []
    for g in spec["genes"]:
        gq = {k: sorted(v) for k, v in _q(g.get("qualifiers")).items() if not _filtered(k)}
        txs = []
        for t in g["transcripts"]:
            tq = _merge(_q(t.get("qualifiers")), _q(g.get("qualifiers")))
            tq = {k: sorted(v) for k, v in tq.items() if not _filtered(k)}
            lt = g.get("locus_tag")
            coding = bool(t.get("cds_starts"))
            frames = None
            if coding:
                frames = list(t["cds_frames"])
                if chunk_mode:
                    frames = specs.frames_for(t["cds_starts"], t["cds_ends"], t["strand"], {"ZERO": 0, "ONE": 1, "TWO": 2}[frames[0 if t["strand"] == "PLUS" else -1]])
            txs.append({
                "exon_starts": [s - off for s in t["exon_starts"]], "exon_ends": [e - off for e in t["exon_ends"]],
                "cds_starts": [s - off for s in t["cds_starts"]] if coding else None, "cds_ends": [e - off for e in t["cds_ends"]] if coding else None,
                "cds_frames": frames,
                "strand": t["strand"],
                "transcript_id": t.get("transcript_id") or lt,
                "transcript_symbol": t.get("transcript_symbol") or lt,
                "transcript_type": t.get("transcript_type") or g.get("gene_type"),
                "protein_id": t.get("protein_id") if coding else None,
                "product": t.get("product") if coding else None,
                "qualifiers": tq or None,
            })
        genes.append({"gene_id": g.get("gene_id"), "gene_symbol": g.get("gene_symbol"), "gene_type": g.get("gene_type"), "locus_tag": g.get("locus_tag"),
                      "qualifiers": gq or None, "transcripts": txs})
    return genes


def lossy_causes(spec, args):
    """Which documented, identifier-changing transformations apply to this spec on export -> parse.  Empty list =
    the parsed model is field-for-field the source, so the re-export must be byte-identical."""
    causes = set()
    if not args["chromosome_relative_coordinates"]:
        causes.add("chunk_relative_coordinates_become_the_coordinates")
    for g in spec["genes"]:
        if g.get("gene_id") is None:
            causes.add("gene_id_defaults_to_gff_id")
        gq = _q(g.get("qualifiers"))
        if any(k != _k(k) for k in (g.get("qualifiers") or {})):
            causes.add("qualifier_key_case_folded")
        if any(_filtered(k) for k in gq):
            causes.add("qualifier_key_looks_like_identifier")
        for t in g["transcripts"]:
            tq = _q(t.get("qualifiers"))
            if _merge(tq, gq) != tq:
                causes.add("gene_qualifiers_merged_into_transcript")
            if any(k != _k(k) for k in (t.get("qualifiers") or {})):
                causes.add("qualifier_key_case_folded")
            if any(_filtered(k) for k in tq):
                causes.add("qualifier_key_looks_like_identifier")
            if g.get("locus_tag") and (t.get("transcript_id") is None or t.get("transcript_symbol") is None):
                causes.add("locus_tag_fills_missing_transcript_id")
            if t.get("transcript_type") is None and g.get("gene_type") is not None:
                causes.add("transcript_biotype_defaults_to_gene")
            if t.get("is_primary_tx"):
                causes.add("is_primary_tx_not_exported")
            if any(v != v2 for q in (g.get("qualifiers"), t.get("qualifiers")) for vs in (q or {}).values() for v in vs for v2 in [str(v)] if False):
                pass
    return sorted(causes)


GENE_FIELDS = ["gene_symbol", "gene_type", "locus_tag", "qualifiers"]
TX_FIELDS = ["exon_starts", "exon_ends", "cds_starts", "cds_ends", "cds_frames", "strand", "transcript_id", "transcript_symbol", "transcript_type", "protein_id", "product", "qualifiers"]


def check_reparse(case, imp):
    fs = []

    def bad(what, detail="", **kw):
        fs.append(dict({"inv": "reparse", "what": what, "detail": str(detail)[:240]}, **kw))

    if "parse_error" in imp:
        bad("parse_raise:" + imp["parse_error"], imp.get("parse_error_msg"))
        return fs
    models = {m["sequence_name"]: m for m in imp["models"]}
    args = case["args"]
    for spec in case["specs"]:
        off = spec["parent"]["chunk"][0] if (spec["parent"]["mode"] == "chunk" and not args["chromosome_relative_coordinates"]) else 0
        m = models.get(spec["sequence_name"])
        if m is None:
            bad("sequence_missing", spec["sequence_name"])
            continue
        exp = expected_model(spec, off, chunk_mode=not args["chromosome_relative_coordinates"])
        got = m["genes"]
        if len(got) != len(exp):
            bad("gene_count", f"{len(got)} != {len(exp)}")
            continue
        import itertools

        best = None
        for perm in itertools.permutations(range(len(got))):
            probs = []
            for eg, i in zip(exp, perm):
                probs.extend(_cmp_gene(eg, got[i]))
            if best is None or len(probs) < len(best):
                best = probs
            if not probs:
                break
        for what, detail, kw in best or []:
            bad(what, detail, **kw)
        if args["add_sequences"]:
            seq = spec["parent"]["genome"]["seq"]
            for gg in got:
                for t in gg["transcripts"]:
                    if not t["has_sequence"]:
                        bad("sequence_not_attached")
                        break
    if case["args"]["add_sequences"] and "fasta_plain" in imp:
        want = sorted([s["sequence_name"], _file_sequence(s)] for s in case["specs"])
        if sorted(imp["fasta_plain"]) != want:
            bad("fasta_extract")
        if imp.get("fasta_short_read") != imp.get("fasta_plain"):
            fs.append({"inv": "short_read", "what": "fasta_extract_depends_on_read_sizes", "detail": ""})
    if "fasta_error" in imp:
        bad("fasta_extract_raise:" + imp["fasta_error"])
    return fs


def _cmp_gene(eg, gg):
    probs = []
    # gene_id falls back to the GFF3 ID (a GUID) when absent: only compare when the source had one
    if eg["gene_id"] is not None and gg["gene_id"] != eg["gene_id"]:
        probs.append(("gene_id", f"{gg['gene_id']!r} != {eg['gene_id']!r}", {}))
    for f in GENE_FIELDS:
        if gg[f] != eg[f]:
            probs.append(("gene_" + f if not f.startswith("gene") else f, f"{gg[f]!r} != {eg[f]!r}", {}))
    if len(gg["transcripts"]) != len(eg["transcripts"]):
        probs.append(("transcript_count", f"{len(gg['transcripts'])} != {len(eg['transcripts'])}", {}))
        return probs
    import itertools

    best = None
    for perm in itertools.permutations(range(len(gg["transcripts"]))):
        allp = []
        for et, i in zip(eg["transcripts"], perm):
            gt = gg["transcripts"][i]
            for f in TX_FIELDS:
                if gt[f] != et[f]:
                    kw = {}
                    if f == "transcript_type":
                        kw["cause"] = "tx_biotype_differs_from_gene" if et["transcript_type"] != eg["gene_type"] else "other"
                    allp.append(("tx_" + f if not f.startswith("transcript") else f, f"{gt[f]!r} != {et[f]!r} strand {et['strand']}", kw))
        if best is None or len(allp) < len(best):
            best = allp
        if not allp:
            break
    probs.extend(best or [])
    return probs


# ---------------------------------------------------------------------------------------------------------------
# coordinator


def run_case(case):
    nd = node.nodes()
    req = {"op": "c11.export", "specs": case["specs"], "args": case["args"], "faults": case["faults"], "warm": case["warm"], "prior": case.get("prior")}
    a = nd.call(case["hs_a"], req)
    stats = collections.Counter()
    fs = []
    if "build_error" in a:
        stats["invalid_spec"] += 1
        return fs, dict(stats), engine.plan_digest(a)
    if "t1_error" in a:
        fs.append({"inv": "export", "what": "raise:" + a["t1_error"], "detail": ""})
        return fs, dict(stats), engine.plan_digest(a)
    t1 = "".join(a["t1"])
    stats["exports"] += 1
    stats["stale_exporter(exported a strain twin first)"] += int("prior_text" in a)
    stats["mode_" + case["specs"][0]["parent"]["mode"]] += 1
    stats["with_fasta"] += int(case["args"]["add_sequences"])
    wf, rows = check_wellformed(t1, case)
    fs.extend(wf)
    stats["rows_checked"] += len(rows or [])
    # (e) repeat export, other hash seed
    if "t2_error" in a or "".join(a.get("t2", a["t1"])) != t1:
        fs.append({"inv": "stable", "what": "repeat_export_differs" if "t2" in a else "repeat_export_raised", "detail": ""})
    b = nd.call(case["hs_b"], dict(req, mode="plain", faults=False))
    stats["hashseed_differs"] += int(case["hs_a"] != case["hs_b"])
    if "t1" not in b or "".join(b["t1"]) != t1:
        fs.append({"inv": "stable", "what": "other_hashseed_export_differs", "detail": ""})
    # (d) write faults
    if case["faults"] and "faults" in a:
        stats["write_fault_files"] += 1
        stats["write_fault_W_max"] = a["W"]
        for rec in a["faults"]:
            stats["write_faults_fired"] += 1
            if rec["outcome"] != "oserror":
                fs.append({"inv": "write_fault", "what": "not_propagated:" + rec["outcome"], "detail": ""})
            elif rec["n"] != rec["k"] - 1 or not rec["prefix_ok"]:
                fs.append({"inv": "write_fault", "what": "not_a_prefix", "detail": ""})
    # (b), (c) importer node
    imp_digest = None
    twins = any(f["what"] == "duplicate_id_identical_content" for f in wf)
    stats["episodes_with_identical_content_twins(parse leg skipped)"] += int(twins and case["parse_leg"])
    if case["parse_leg"] and not twins:
        imp = nd.call(case["hs_b"], {"op": "c11.import", "text": t1, "fasta": case["args"]["add_sequences"], "args": case["args"],
                                     "reader_chunk": case["reader_chunk"], "reader_seed": 7, "prior_text": a.get("prior_text"),
                                     "sched_seed": case.get("sched_seed"), "read_faults": case.get("read_faults"),
                                     "rewrite_same_path": case.get("rewrite_same_path")})
        stats["file_rewritten_under_same_name"] += int(bool(imp.get("rewritten_in_place")))
        if "sched" in imp and "models" in imp:
            stats["sched_episodes"] += 1
            stats["sched_steps"] += len(imp["schedule"])
            stats["sched_switches"] += sum(1 for x, y in zip(imp["schedule"], imp["schedule"][1:]) if x != y)
            stats["sched_abandoned_consumer"] += int(imp.get("sched_abandoned", False))
            for lb, got in imp["sched"].items():
                if got != imp["models"]:
                    fs.append({"inv": "interleaving", "what": "parse_depends_on_other_consumers", "detail": json.dumps(imp["schedule"])[:200]})
        if "read_faults" in imp:
            stats["read_fault_files"] += 1
            for rec in imp["read_faults"]:
                stats["read_faults_fired"] += int(rec["fired"])
                stats["read_fault_" + rec["outcome"].split(":")[0]] += 1
                if rec["outcome"] == "returned_wrong":
                    fs.append({"inv": "read_fault", "what": "returned_other_result_after_read_error", "detail": f"k={rec['k']}"})
        imp_digest = {k: imp.get(k) for k in ("models", "sched", "schedule", "read_faults", "reexport", "parse_error")}
        stats["stale_importer(parsed another file first)"] += int(bool(imp.get("prior_parsed")))
        stats["parse_legs"] += 1
        stats["fasta_reader_runs"] += int("fasta_plain" in imp)
        rp = check_reparse(case, imp)
        fs.extend(rp)
        causes = sorted({c for sp in case["specs"] for c in lossy_causes(sp, case["args"])})
        if "reexport_error" in imp:
            fs.append({"inv": "reexport", "what": "raise:" + imp["reexport_error"], "detail": "", "causes": causes})
        elif "reexport" in imp:
            stats["reexports"] += 1
            if imp["reexport"] != t1:
                stats["reexport_differs"] += 1
                if sorted(imp["reexport"].split("\n")) == sorted(t1.split("\n")):
                    # same lines; only the order of rows with equal start differs (isoform order is not preserved by the parser)
                    fs.append({"inv": "reexport", "what": "line_order_differs", "detail": _first_line_diff(t1, imp["reexport"]), "causes": []})
                else:
                    fs.append({"inv": "reexport", "what": "bytes_differ", "detail": _first_line_diff(t1, imp["reexport"]), "causes": causes})
            else:
                stats["reexport_identical"] += 1
            stats["reexport_must_be_identical(lossless spec)"] += int(not causes)
            # whatever the parser made of the file, exporting *that* model must again be well-formed and faithful to it
            if "models" in imp:
                case_y = {"args": dict(case["args"], chromosome_relative_coordinates=True, add_sequences=case["args"]["add_sequences"]),
                          "specs": [dict(m, parent={"mode": "chrom", "genome": {"seq": next((_file_sequence(sp) for sp in case["specs"] if sp["sequence_name"] == m["sequence_name"]), "")}})
                                    for m in imp["models"]]}
                wf2, _ = check_wellformed(imp["reexport"], case_y)
                for f in wf2:
                    fs.append(dict(f, inv="reexport_wellformed"))
    uniq, seen = [], set()
    for f in fs:
        k = json.dumps({x: f[x] for x in f if x != "detail"}, sort_keys=True)
        if k not in seen:
            seen.add(k)
            uniq.append(f)
    return uniq, dict(stats), engine.plan_digest({"t1": t1, "faults": a.get("faults"), "imp": imp_digest})


def _first_line_diff(x, y):
    for l1, l2 in zip(x.split("\n"), y.split("\n")):
        if l1 != l2:
            return f"{l1[:110]} | {l2[:110]}"
    return "length"


def sig_key(f):
    return (f["inv"], f["what"], f.get("cause"), tuple(f.get("causes") or ()))


def run_one(item):
    seed, idx, tier = item
    case = gen_case(seed, idx, tier)
    fs, stats, h = run_case(case)
    return {"idx": idx, "digest": h, "plan_digest": engine.plan_digest(case), "stats": stats, "findings": fs}


def run_batch(tier, seed, runs=None, wall=None):
    cfg = TIERS[tier]
    runs = runs or int(os.environ.get("VERIF_RUNS", "0")) or cfg["runs"]
    items = [(seed, i, tier) for i in range(runs)]
    t0 = time.time()
    res = engine.pool_map(run_one, items, wall_cap=wall or cfg["wall"], fini=node.close_nodes)
    return {"results": [r for _, r in res], "wall": time.time() - t0, "hashseed": os.environ.get("PYTHONHASHSEED", "?"), "tier": tier}


def shrink_case(case, fails, max_tests=150):
    cur = copy.deepcopy(case)
    tests = 0
    changed = True
    while changed and tests < max_tests:
        changed = False
        cands = []
        if len(cur["specs"]) > 1:
            cands += [("coll", ci) for ci in range(len(cur["specs"]))]
        for ci, s in enumerate(cur["specs"]):
            if len(s["genes"]) + len(s["feature_collections"]) > 1:
                cands += [("gene", ci, gi) for gi in range(len(s["genes"]))]
                cands += [("fc", ci, fi) for fi in range(len(s["feature_collections"]))]
            for gi, g in enumerate(s["genes"]):
                if len(g["transcripts"]) > 1:
                    cands += [("tx", ci, gi, ti) for ti in range(len(g["transcripts"]))]
                for k in list(g.get("qualifiers") or {}):
                    cands.append(("gq", ci, gi, k))
                for ti, t in enumerate(g["transcripts"]):
                    for k in list(t.get("qualifiers") or {}):
                        cands.append(("tq", ci, gi, ti, k))
        if cur.get("faults"):
            cands.append(("nofaults",))
        if cur["args"]["add_sequences"]:
            cands.append(("nofasta",))
        for c in cands:
            trial = copy.deepcopy(cur)
            if c[0] == "coll":
                del trial["specs"][c[1]]
            elif c[0] == "gene":
                del trial["specs"][c[1]]["genes"][c[2]]
            elif c[0] == "fc":
                del trial["specs"][c[1]]["feature_collections"][c[2]]
            elif c[0] == "tx":
                del trial["specs"][c[1]]["genes"][c[2]]["transcripts"][c[3]]
            elif c[0] == "gq":
                q = trial["specs"][c[1]]["genes"][c[2]]["qualifiers"]
                del q[c[3]]
                if not q:
                    trial["specs"][c[1]]["genes"][c[2]]["qualifiers"] = None
            elif c[0] == "tq":
                q = trial["specs"][c[1]]["genes"][c[2]]["transcripts"][c[3]]["qualifiers"]
                del q[c[4]]
                if not q:
                    trial["specs"][c[1]]["genes"][c[2]]["transcripts"][c[3]]["qualifiers"] = None
            elif c[0] == "nofaults":
                trial["faults"] = False
            elif c[0] == "nofasta":
                trial["args"]["add_sequences"] = False
            tests += 1
            if fails(trial):
                cur = trial
                changed = True
                break
            if tests >= max_tests:
                break
    return cur


def minimise_and_write(seed, idx, finding, hashseed, tier="quick"):
    key = sig_key(finding)
    case = gen_case(seed, idx, tier)

    def fails(c):
        try:
            fs, _, _ = run_case(c)
        except Exception:
            return False
        return any(sig_key(f) == key for f in fs)

    small = shrink_case(case, fails)
    doc = {"check": PROP, "seed": seed, "run": idx, "hashseed": hashseed, "case": small,
           "expect": {"inv": finding["inv"], "what": finding["what"]}, "note": json.dumps(finding, ensure_ascii=False)[:500]}
    node.close_nodes()
    return engine.write_replay(PROP, doc)


def replay(doc):
    try:
        fs, _, _ = run_case(doc["case"])
    finally:
        node.close_nodes()
    exp = doc.get("expect") or {}
    hit = [f for f in fs if all(f.get(k) == v for k, v in exp.items())]
    return bool(hit), fs


def match_known_causes(known, f):
    """A re-export byte difference is 'known' only if EVERY cause tag computed from the spec is listed."""
    return None


def aggregate(batches, tier, seed, t0):
    known = engine.load_known()
    stats = collections.Counter()
    digests, nontrivial = set(), set()
    harness_errors, groups = [], {}
    nruns = 0
    for b in batches:
        for r in b["results"]:
            nruns += 1
            if "__harness_error__" in r:
                harness_errors.append(r)
                continue
            for k, v in r["stats"].items():
                if k.endswith("_max"):
                    stats[k] = max(stats[k], v)
                else:
                    stats[k] += v
            digests.add(r["plan_digest"])
            if r["stats"].get("exports"):
                nontrivial.add(r["plan_digest"])
            for f in r["findings"]:
                groups.setdefault(sig_key(f), []).append((b["hashseed"], r["idx"], f))
    violations, known_hits = [], collections.Counter()
    for key, insts in sorted(groups.items(), key=lambda kv: str(kv[0])):
        hs, idx, f = insts[0]
        k = _match_known(known, f)
        if k:
            known_hits[k["id"]] += len(insts)
        else:
            violations.append((key, hs, idx, f, len(insts)))
    return dict(stats=stats, plan_digests=digests, nontrivial=nontrivial, harness_errors=harness_errors, violations=violations,
                known_hits=known_hits, known=known, nruns=nruns, tier=tier)


def _match_known(known, f):
    k = engine.match_known(known, PROP, f)
    if k:
        return k
    # cause-based entries: every cause tag of the finding must be covered by the entry's 'causes_subset_of'
    for e in known.get("findings", []):
        if e.get("property") != PROP or "causes_subset_of" not in e:
            continue
        m = e.get("match_base", {})
        if all(f.get(x) == y for x, y in m.items()) and f.get("causes") and set(f["causes"]) <= set(e["causes_subset_of"]):
            return e
    return None


def evidence(agg, tier, seed, wall, batches):
    st = agg["stats"]
    case = gen_case(seed, 0, tier)
    sample = {"run": 0, "args": case["args"], "parse_leg": case["parse_leg"], "exporter_hashseed": case["hs_a"], "importer_hashseed": case["hs_b"],
              "write_faults_enumerated": case["faults"], "parent_mode": case["specs"][0]["parent"]["mode"],
              "first_gene": {k: case["specs"][0]["genes"][0][k] for k in ("gene_id", "gene_symbol", "gene_type", "locus_tag", "qualifiers")},
              "first_transcript": {k: case["specs"][0]["genes"][0]["transcripts"][0][k] for k in ("exon_starts", "exon_ends", "strand", "cds_starts", "cds_ends", "cds_frames", "qualifiers", "transcript_type")}}
    rph = agg["nruns"] / wall * 3600 if wall else 0
    return {
        "evaluations": agg["nruns"],
        "distinct_nontrivial": len(agg["nontrivial"]),
        "rule": "one evaluation = one export/import episode: node A exports 1-2 generated collections through a SimDisk handle (and again on warm "
                "objects); node B with another hash seed exports the same content, parses A's bytes (materialised for gffutils), reads the "
                "FASTA section through a short-reading SimDisk reader, and re-exports; in ~12% of episodes the disk fails at EVERY write index, in ~24% of FASTA parse legs at every read index (must raise or return everything); "
                "in half of the parse legs 2-4 lazy parser generators are stepped by a seeded cooperative scheduler (each must return what it returns alone). "
                "distinct = sha256 of the case; non-trivial = the export produced a file that was read by the independent reader.",
        "samples": [sample],
        "simulated_runs_per_hour": round(rph), "seeds_per_hour": round(rph),
        "simulated_time": "not applicable: no timers; one episode = 3 node requests",
        "faults_fired": {
            "write_fault(k) (every k, enumerated)": st["write_faults_fired"], "files_with_full_write_fault_enumeration": st["write_fault_files"],
            "max_writes_per_file_W": st["write_fault_W_max"],
            "short_read": "not applicable to extract_seqrecords_from_gff3_fasta: it only iterates lines and calls read() without a size, which must return everything; the FASTA section is read through SimReader and through a plain reader and both results compared (" + str(st["fasta_reader_runs"]) + " runs)",
            "hashseed(importer differs)": st["hashseed_differs"],
            "stale_exporter(exported a strain twin earlier in the same process)": st["stale_exporter(exported a strain twin first)"],
            "stale_importer(parsed another file earlier in the same process)": st["stale_importer(parsed another file first)"],
            "file_rewritten_under_the_same_name_between_two_parses": st["file_rewritten_under_same_name"],
            "interleaved_consumers(episodes where 2-4 lazy parsers were stepped by the seeded scheduler)": st["sched_episodes"],
            "scheduler_steps": st["sched_steps"], "scheduler_task_switches": st["sched_switches"],
            "abandoned_consumer(a parser closed in the middle of another file)": st["sched_abandoned_consumer"],
            "read_fault(k) on the handle-taking FASTA reader": st["read_faults_fired"], "files_with_read_fault_enumeration": st["read_fault_files"],
            "read_fault_outcomes": {k[11:]: v for k, v in st.items() if k.startswith("read_fault_") and k[11:] in ("oserror", "returned_full", "returned_wrong", "raise", "other_oserror")},
        },
        "reach_probes": {
            "rows_checked_by_independent_reader": st["rows_checked"], "parse_legs": st["parse_legs"], "reexports": st["reexports"],
            "reexport_byte_identical": st["reexport_identical"], "reexport_differs": st["reexport_differs"], "files_with_fasta": st["with_fasta"],
            "lossless_specs(reexport must be byte-identical)": st["reexport_must_be_identical(lossless spec)"],
            "parent_modes": {k[5:]: v for k, v in st.items() if k.startswith("mode_")}, "constructor_refused_spec": st["invalid_spec"],
        },
        "known_findings_hit": dict(agg["known_hits"]),
        "harness_errors": len(agg["harness_errors"]),
        "components_real": engine.REAL,
        "components_stub": engine.STUBS + ["gffutils insists on a path: the SimDisk file is materialised byte-for-byte under /dev/shm for the parse and removed"],
        "repo_head": engine.repo_head(),
    }


ASSUMPTIONS = [
    "expected rows/attributes are computed from the spec with the documented export transformations (keys lower-cased unless GFF3-reserved, parent qualifiers merged into children, comma = value separator, empty value -> 'nan')",
    "library re-parse leg: gene-only collections, no comma / double quote in qualifier values (as the property states); feature collections are checked by the writer oracle only",
    "chunk-relative mode uses windows that contain every interval completely (clipping and frame re-derivation on chunks are C07's subject)",
    "rows ordered by start is checked per sequence; ties are not constrained",
]
