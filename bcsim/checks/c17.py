"""C17 - NCBI feature-table (.tbl) export.

Simulated system: an exporter process writes through a SimDisk handle; a noise session perturbs the process-global
``random`` module between two exports with the same seed; a second node with another hash seed repeats the export; the
disk fails at every write index in turn.  Oracles: an independent 5-column reader + a model computed from the spec
(blocks 5'->3', partial marks from BioPython's codon tables, codon_start, pseudo, locus tags); byte-identical output
for a fixed seed whatever the PRNG state / process / hash seed; fail-stop prefix behaviour under write faults."""
import collections
import copy
import json
import os
import time

from bcsim import engine, node, specs

PROP = "C17"
LEVEL = "exploration"
TIERS = {
    "quick": dict(runs=800, wall=900, hashseeds=[0], node_seeds=[0, 1, 77, 4242], fault_p=0.3),
    "thorough": dict(runs=20000, wall=6 * 3600, hashseeds=[0], node_seeds=[0, 1, 2, 3, 5, 7, 11, 13, 77, 101, 1234, 4242, 9999, 31337, 65537, 99991], fault_p=0.3),
}
STOPS = ("TAA", "TAG", "TGA")
# start codons: the library's DEFAULT is ATG only; tables 1 and 11 are taken from BioPython at check time
START_DEFAULT = ("ATG",)
NONCODING = ["ncRNA", "tRNA", "rRNA", "lncRNA", "misc_RNA", "snoRNA", "miRNA"]
SEEDS = [0, 1, 5, 123, 2 ** 31, None]


# ---------------------------------------------------------------------------------------------------------------
# generation


def gen_gene(rng, lo, hi, idx, seqname, coding):
    strand = rng.choice(["PLUS", "MINUS"])
    ntx = rng.choice([1, 1, 1, 2, 3])
    txs = []
    for i in range(ntx):
        t = specs.gen_transcript(rng, lo, hi, idx=f"{idx}_{i}", strand=strand, seqname=seqname, coding_p=1.0 if coding else 0.0,
                                 frameshift_p=0.1, quals=dict(keys=["note", "db_xref", "gene_synonym", "product", "old_locus_tag"],
                                                              vals=["alpha", "kinase", "GeneID:1", "GeneID:22", "syn1", "syn2", "abc_def", "12345", "tRNA-Ala", "16S ribosomal RNA"],
                                                              collide_p=0.0, p_none=0.4))
        if coding and not t.get("cds_starts"):
            return None
        if coding:
            # make sure there is at least one complete codon after the start offset
            n = specs.blocks_len(t["cds_starts"], t["cds_ends"])
            f0 = {"ZERO": 0, "ONE": 1, "TWO": 2}[t["cds_frames"][0 if strand == "PLUS" else -1]]
            if n - f0 < 3:
                return None
            # keep the start offset inside the 5'-most CDS block: how the reading frame is re-synchronised when the
            # offset swallows a whole block is C05's subject (the codon model), not the feature table's
            first = 0 if strand == "PLUS" else -1
            if t["cds_ends"][first] - t["cds_starts"][first] <= f0:
                return None
        if not coding:
            t["transcript_type"] = None  # filled with the gene type below
        txs.append(t)
    if coding and rng.random() < 0.3:
        # an isoform pair with the same CDS start and end but another internal structure (cassette / alternative splice
        # site); the variant is listed before or after the original and, half of the time, gets no planted ORF
        k = rng.randrange(len(txs))
        c = specs.cassette_isoform(rng, txs[k])
        first = 0 if strand == "PLUS" else -1
        if c is not None and c["cds_ends"][first] - c["cds_starts"][first] <= {"ZERO": 0, "ONE": 1, "TWO": 2}[c["cds_frames"][first]]:
            c = None  # start offset would swallow the whole 5'-most block (excluded for every transcript, see above)
        if c is not None:
            if rng.random() < 0.5:
                c["_no_plant"] = True
            txs.insert(k if rng.random() < 0.7 else k + 1, c)
    gtype = "protein_coding" if coding else rng.choice(NONCODING)
    for t in txs:
        t["transcript_type"] = "protein_coding" if coding else gtype
    if not coding and len(txs) == 2 and rng.random() < 0.3:
        # a non-coding gene with one isoform on each strand (an exact tie): the statement does not say which way round the
        # gene row is then written (either is accepted), but it must be the same way round in every process
        txs[1]["strand"] = "MINUS" if txs[0]["strand"] == "PLUS" else "PLUS"
    return {
        "transcripts": txs,
        "gene_id": f"gene{idx}" if rng.random() < 0.8 else None,
        "gene_symbol": f"GN{idx}" if rng.random() < 0.6 else None,
        "gene_type": gtype,
        "locus_tag": f"OLD_{idx}" if rng.random() < 0.5 else None,
        "qualifiers": specs.gen_qualifiers(rng, keys=["note", "db_xref", "gene_synonym", "function"], vals=["syn1", "syn2", "syn3", "GeneID:7", "GeneID:8", "x y"],
                                           collide_p=0.0, p_none=0.4),
        "sequence_name": seqname,
    }


def gen_collection(rng, cidx):
    L = rng.choice([60, 120, 240, 400])
    seqname = f"chr{cidx + 1}"
    seq = specs.gen_seq(rng, L)
    ngenes = rng.randint(1, 3)
    genes = []
    tries = 0
    while len(genes) < ngenes and tries < 30:
        tries += 1
        lo = rng.randint(0, max(0, L - 20))
        hi = rng.randint(min(L, lo + 12), L)
        g = gen_gene(rng, lo, hi, f"{cidx}{len(genes)}", seqname, coding=rng.random() < 0.7)
        if g is None:
            continue
        genes.append(g)
        for t in g["transcripts"]:
            if t.get("cds_starts") and not t.pop("_no_plant", False):
                seq = specs.plant_orf(seq, t, rng, p_start=0.65, p_stop=0.65, start_codons=("ATG", "ATG", "TTG", "CTG", "GTG", "ATT", "ATA"))
    fcs = []
    if rng.random() < 0.3:
        # non-gene features: the feature table has no rows for them, and they must not disturb anything else
        # (locus-tag numbering across collections in particular)
        for i in range(rng.randint(1, 2)):
            a = rng.randint(0, L - 6)
            fcs.append({"feature_intervals": [{"interval_starts": [a], "interval_ends": [a + rng.randint(2, 5)], "strand": rng.choice(["PLUS", "MINUS"]), "qualifiers": None,
                                               "sequence_name": seqname, "feature_types": ["promoter"], "feature_name": f"feat{cidx}_{i}", "feature_id": None, "is_primary_feature": None}],
                        "feature_collection_name": f"fc{cidx}_{i}", "feature_collection_id": None, "feature_collection_type": "regulatory", "locus_tag": None,
                        "qualifiers": None, "sequence_name": seqname})
    return {
        "genes": genes, "feature_collections": fcs, "variant_collections": [], "name": None, "id": None, "sequence_name": seqname,
        "qualifiers": None, "start": None, "end": None, "completely_within": None,
        "parent": {"mode": "chrom", "genome": {"id": seqname, "seq": seq, "alphabet": "NT_EXTENDED_GAPPED"}},
    }


def gen_case(seed, idx, tier="quick"):
    rng = engine.rng_for(seed, PROP, idx)
    cfg = TIERS[tier]
    ncoll = rng.choice([1, 1, 2])
    colls = [gen_collection(rng, c) for c in range(ncoll)]
    # "strain twins": the same annotation on a sequence with other bases (other start / stop codon status), either as
    # an earlier collection of the same call or exported by an earlier call in the same process
    twins = []
    if rng.random() < 0.45:
        for c in colls[:1]:
            t = copy.deepcopy(c)
            seq = t["parent"]["genome"]["seq"].translate(str.maketrans("ACGT", "CATG"))
            for g in t["genes"]:
                for tx in g["transcripts"]:
                    if tx.get("cds_starts"):
                        seq = specs.plant_orf(seq, tx, rng, p_start=0.5, p_stop=0.5, start_codons=("ATG", "TTG", "ATA", "GTG"))
            t["parent"]["genome"]["seq"] = seq
            t["sequence_name"] = t["parent"]["genome"]["id"] = "strainB"
            for g in t["genes"]:
                g["sequence_name"] = "strainB"
                for tx in g["transcripts"]:
                    tx["sequence_name"] = "strainB"
            twins.append(t)
    prior = []
    if twins and rng.random() < 0.5:
        colls = twins + colls if rng.random() < 0.6 else colls + twins
    elif twins:
        prior = twins
    if rng.random() < 0.3:
        # two windows of one sequence in the same call (what exporting query results gives): a collection with >= 2 genes
        # is split into two collections on the same parent; the second window goes anywhere after the first, so that
        # another sequence's collection may sit between them
        cands = [i for i, c in enumerate(colls) if len(c["genes"]) >= 2]
        if cands:
            i = rng.choice(cands)
            k = rng.randint(1, len(colls[i]["genes"]) - 1)
            w2 = copy.deepcopy(colls[i])
            w2["genes"], w2["feature_collections"] = w2["genes"][k:], []
            colls[i]["genes"] = colls[i]["genes"][:k]
            colls.insert(rng.randint(i + 1, len(colls)), w2)
    seeds = cfg["node_seeds"]
    a = rng.choice(seeds)
    b = rng.choice([s for s in seeds if s != a] or seeds)
    r = rng.choice(SEEDS)
    args = {
        "translation_table": rng.choice(["DEFAULT", "STANDARD", "PROKARYOTE"]),
        "locus_tag_prefix": rng.choice(["LTP", "X1"]),
        "genbank_flavor": rng.choice(["EUKARYOTIC", "PROKARYOTIC"]),
        "locus_tag_jump_size": rng.choice([1, 5, 10]),
        "submitter_lab_name": rng.choice(["lab", "inscripta"]),
        "random_seed": r,
    }
    if rng.random() < 0.15:
        args["locus_tag_prefix"] = None  # drawn from the PRNG
    if rng.random() < 0.15:
        args["submitter_lab_name"] = None
    if args["locus_tag_prefix"] and rng.random() < 0.15:
        # genes that already carry a locus tag made of the very prefix requested now (an earlier iteration of the same
        # genome): the tags of this export must still be unique and step by the requested size
        for c_ in colls:
            for g_ in c_["genes"]:
                if rng.random() < 0.5:
                    g_["locus_tag"] = f"{args['locus_tag_prefix']}_{rng.choice([1, 5, 10, 20]) * rng.randint(1, 3)}"
    perturb = rng.choice([["seed", rng.randint(0, 10 ** 6)], ["draw", rng.randint(1, 50)], ["seed", 0], ["none"]])
    return {"specs": colls, "prior": prior, "args": args, "hs_a": a, "hs_b": b, "perturb": perturb, "faults": rng.random() < cfg["fault_p"],
            # the simulator owns the process-global PRNG: its state at the start of every request is part of the case
            "prior_state": ["seed", rng.randint(0, 10 ** 6)],
            # earlier activity on the SAME live objects: exported with another flavour / translation table / jump size, and
            # asked for proteins and stop / start status under every table, before the export under test
            "warm_other": rng.random() < 0.3}


# ---------------------------------------------------------------------------------------------------------------
# node-side


def _export(colls, args, writer):
    from inscripta.biocantor.io.ncbi.tbl_writer import collection_to_tbl
    from inscripta.biocantor.io.genbank.constants import GenbankFlavor
    from inscripta.biocantor.gene.codon import TranslationTable

    collection_to_tbl(
        colls, writer,
        translation_table=TranslationTable[args["translation_table"]],
        locus_tag_prefix=args["locus_tag_prefix"],
        genbank_flavor=GenbankFlavor[args["genbank_flavor"]],
        locus_tag_jump_size=args["locus_tag_jump_size"],
        submitter_lab_name=args["submitter_lab_name"],
        random_seed=args["random_seed"],
    )


def _perturb(p):
    import random

    if p[0] == "seed":
        random.seed(p[1])
    elif p[0] == "draw":
        for _ in range(p[1]):
            random.random()


def h_export(req):
    import warnings
    from bcsim import build, simdisk

    warnings.simplefilter("ignore")
    out = {"hashseed": os.environ.get("PYTHONHASHSEED")}
    try:
        colls = [build.build_collection(s)[0] for s in req["specs"]]
    except Exception as e:
        return {"build_error": type(e).__name__}
    if req.get("prior"):
        # an earlier, unrelated call in the same process (another caller exported a strain twin); its output is discarded
        try:
            pcolls = [build.build_collection(s)[0] for s in req["prior"]]
            _export(pcolls, req["args"], simdisk.SimWriter())
            out["prior_exported"] = True
        except Exception as e:
            out["prior_error"] = type(e).__name__
    if req.get("warm_other"):
        from inscripta.biocantor.gene.codon import TranslationTable

        a0 = req["args"]
        other = dict(a0, translation_table={"DEFAULT": "PROKARYOTE", "STANDARD": "DEFAULT", "PROKARYOTE": "STANDARD"}[a0["translation_table"]],
                     genbank_flavor="EUKARYOTIC" if a0["genbank_flavor"] == "PROKARYOTIC" else "PROKARYOTIC",
                     locus_tag_jump_size=a0["locus_tag_jump_size"] + 3, random_seed=12345)
        try:
            for c in colls:
                for g in c.genes:
                    for t in g.transcripts:
                        if t.cds:
                            for tt in TranslationTable:
                                t.get_protein_sequence(translation_table=tt)
                                t.cds.has_start_codon_in_specific_translation_table(tt)
                            t.cds.has_valid_stop, t.cds.has_canonical_start_codon, t.has_in_frame_stop
            _export(colls, other, simdisk.SimWriter())
            out["warm_other"] = True
        except Exception as e:
            out["warm_other_error"] = type(e).__name__
    _perturb(req.get("prior_state", ["none"]))
    w = simdisk.SimWriter()
    try:
        _export(colls, req["args"], w)
        out["t1"] = w.chunks
    except Exception as e:
        out["t1_error"] = type(e).__name__
        out["t1_partial"] = w.chunks
        return out
    if req.get("mode") == "plain":
        return out
    # noise session touches the process-global PRNG, then the same export is repeated on the same (warm) objects
    _perturb(req["perturb"])
    w2 = simdisk.SimWriter()
    try:
        _export(colls, req["args"], w2)
        out["t2"] = w2.chunks
    except Exception as e:
        out["t2_error"] = type(e).__name__
    # ... and on freshly built collections
    _perturb(req["perturb"])
    colls3 = [build.build_collection(s)[0] for s in req["specs"]]
    w3 = simdisk.SimWriter()
    try:
        _export(colls3, req["args"], w3)
        out["t3"] = w3.chunks
    except Exception as e:
        out["t3_error"] = type(e).__name__
    if req.get("faults"):
        W = len(out["t1"])
        faults = []
        for k in range(1, W + 1):
            fw = simdisk.SimWriter(fail_at=k)
            rec = {"k": k}
            try:
                _export(colls3, req["args"], fw)
                rec["outcome"] = "returned"
            except OSError as e:
                rec["outcome"] = "oserror" if fw.fired else "other_oserror"
            except Exception as e:
                rec["outcome"] = "raise:" + type(e).__name__
            rec["chunks"] = fw.chunks
            faults.append(rec)
        out["faults"] = faults
        out["W"] = W
    return out


# ---------------------------------------------------------------------------------------------------------------
# independent reader + model


def parse_tbl(text):
    """Independent 5-column reader.  Returns list of sections {"name", "features":[{"type","intervals","quals"}]}."""
    sections = []
    cur = None
    feat = None
    for ln, line in enumerate(text.split("\n")):
        if line == "":
            continue
        if line.startswith(">"):
            parts = line.split(None, 1)
            if parts[0] != ">Features":
                raise ValueError(f"line {ln}: bad header {line!r}")
            cur = {"name": parts[1] if len(parts) > 1 else None, "features": []}
            sections.append(cur)
            feat = None
            continue
        cols = line.split("\t")
        if len(cols) != 5:
            raise ValueError(f"line {ln}: {len(cols)} columns: {line!r}")
        if cur is None:
            raise ValueError(f"line {ln}: row before any header")
        if cols[0] != "" or cols[1] != "":
            if cols[3] != "" or cols[4] != "":
                raise ValueError(f"line {ln}: interval row with qualifier columns")
            s, e = cols[0], cols[1]
            p5 = s.startswith("<")
            p3 = e.startswith(">")
            s_i, e_i = int(s.lstrip("<>")), int(e.lstrip("<>"))
            if cols[2] != "":
                feat = {"type": cols[2], "intervals": [], "quals": []}
                cur["features"].append(feat)
            elif feat is None:
                raise ValueError(f"line {ln}: continuation row without feature")
            feat["intervals"].append([s_i, e_i, p5, p3])
        else:
            if cols[2] != "" or feat is None:
                raise ValueError(f"line {ln}: bad qualifier row")
            feat["quals"].append([cols[3], cols[4]])
    return sections


def _merge_adjacent(blocks):
    out = []
    for s, e in sorted(blocks):
        if out and s <= out[-1][1]:
            out[-1][1] = max(out[-1][1], e)
        else:
            out.append([s, e])
    return out


def _tbl_intervals(blocks, strand):
    """0-based half-open genomic blocks -> tbl intervals 5'->3' (1-based inclusive; start>end on minus)."""
    iv = [[s + 1, e] for s, e in sorted(blocks)]
    if strand == "MINUS":
        iv = [[e, s] for s, e in iv][::-1]
    return iv


def start_codons(table):
    if table == "DEFAULT":
        return set(START_DEFAULT)
    from Bio.Data import CodonTable

    return set(CodonTable.unambiguous_dna_by_id[{"STANDARD": 1, "PROKARYOTE": 11}[table]].start_codons)


def model_tx(t, genome, table):
    strand = t["strand"]
    exons = list(zip(t["exon_starts"], t["exon_ends"]))
    m = {"exons": [_tbl_intervals(exons, strand), _tbl_intervals(_merge_adjacent(exons), strand)], "coding": bool(t.get("cds_starts"))}
    if not m["coding"]:
        return m
    cds = list(zip(t["cds_starts"], t["cds_ends"]))
    m["cds"] = [_tbl_intervals(cds, strand), _tbl_intervals(_merge_adjacent(cds), strand)]
    pos = []
    for s, e in sorted(cds):
        pos.extend(range(s, e))
    bases = "".join(genome[p] for p in pos).upper()
    if strand == "MINUS":
        bases = specs.revcomp(bases)
    f0 = {"ZERO": 0, "ONE": 1, "TWO": 2}[t["cds_frames"][0 if strand == "PLUS" else -1]]
    n = len(bases)
    codons = [bases[i:i + 3] for i in range(f0, n - 2, 3)]
    m["codon_start"] = f0 + 1
    m["p5"] = codons[0] not in start_codons(table)
    m["p3"] = ((n - f0) % 3 != 0) or (codons[-1] not in STOPS)
    m["in_frame_stop"] = any(c in STOPS for c in codons[:-1])
    return m


RNA_TYPES = {"rRNA": "rRNA", "tRNA": "tRNA"}


def check_text(text, case):
    """Returns list of finding dicts (empty = the file agrees with the model)."""
    fs = []
    args = case["args"]

    def bad(what, detail=""):
        fs.append({"inv": "tbl_model", "what": what, "detail": str(detail)[:200], "flavor": args["genbank_flavor"]})

    try:
        sections = parse_tbl(text)
    except Exception as e:
        bad("unparseable", e)
        return fs
    specs_ = case["specs"]
    if len(sections) != len(specs_):
        bad("section_count", f"{len(sections)} != {len(specs_)}")
        return fs
    tags = []
    for sec, spec in zip(sections, specs_):
        if sec["name"] != spec["sequence_name"]:
            bad("header_name", f"{sec['name']} != {spec['sequence_name']}")
        genome = spec["parent"]["genome"]["seq"]
        feats = list(sec["features"])
        fi = 0
        for g in spec["genes"]:
            strand = g["transcripts"][0]["strand"]
            coding = any(t.get("cds_starts") for t in g["transcripts"])
            models = [model_tx(t, genome, args["translation_table"]) for t in g["transcripts"]]
            pseudo = coding and any(m.get("in_frame_stop") for m in models)
            if fi >= len(feats) or feats[fi]["type"] != "gene":
                bad("gene_feature_missing", feats[fi]["type"] if fi < len(feats) else "EOF")
                return fs
            gf = feats[fi]
            fi += 1
            glo = min(t["exon_starts"][0] for t in g["transcripts"])
            ghi = max(t["exon_ends"][-1] for t in g["transcripts"])
            exp = _tbl_intervals([(glo, ghi)], strand)
            got = [[a, b] for a, b, _, _ in gf["intervals"]]
            mixed = len({t["strand"] for t in g["transcripts"]}) > 1
            if got != exp and not (mixed and got == _tbl_intervals([(glo, ghi)], "MINUS" if strand == "PLUS" else "PLUS")):
                bad("gene_interval", f"{got} != {exp} strand {strand}")
            if any(p5 or p3 for _, _, p5, p3 in gf["intervals"]):
                bad("gene_partial_mark")
            q = gf["quals"]
            lt = [v for k, v in q if k == "locus_tag"]
            if len(lt) != 1:
                bad("gene_locus_tag_count", lt)
            else:
                tags.append(lt[0])
            if (["pseudo", ""] in q) != pseudo:
                bad("gene_pseudo", f"file={['pseudo',''] in q} model={pseudo}")
            for t, m in zip(g["transcripts"], models):
                if coding:
                    seq_types = ["mRNA", "CDS"] if args["genbank_flavor"] == "EUKARYOTIC" else ["CDS"]
                    for ft in seq_types:
                        if fi >= len(feats) or feats[fi]["type"] != ft:
                            bad("feature_order", f"expected {ft} got {feats[fi]['type'] if fi < len(feats) else 'EOF'}")
                            return fs
                        f = feats[fi]
                        fi += 1
                        got = [[a, b] for a, b, _, _ in f["intervals"]]
                        exp2 = m["exons"] if ft == "mRNA" else m["cds"]
                        if got not in exp2:
                            bad(f"{ft}_intervals", f"{got} not in {exp2} strand {strand}")
                            continue
                        marks5 = [p5 for _, _, p5, _ in f["intervals"]]
                        marks3 = [p3 for _, _, _, p3 in f["intervals"]]
                        if any(marks5[1:]) or any(marks3[:-1]):
                            bad(f"{ft}_partial_mark_position")
                        if marks5[0] != m["p5"]:
                            bad(f"{ft}_5p_partial", f"file={marks5[0]} model={m['p5']} strand={strand} table={args['translation_table']}")
                        if marks3[-1] != m["p3"]:
                            bad(f"{ft}_3p_partial", f"file={marks3[-1]} model={m['p3']} strand={strand}")
                        cs = [v for k, v in f["quals"] if k == "codon_start"]
                        if ft == "CDS" and cs != [str(m["codon_start"])]:
                            bad("codon_start", f"file={cs} model={m['codon_start']} strand={strand} blocks={len(m['cds'][0])}")
                        if (["pseudo", ""] in f["quals"]) != pseudo:
                            bad(f"{ft}_pseudo", f"file={['pseudo',''] in f['quals']} model={pseudo}")
                        flt = [v for k, v in f["quals"] if k == "locus_tag"]
                        if flt != lt:
                            bad(f"{ft}_locus_tag", f"{flt} != {lt}")
                else:
                    ft = RNA_TYPES.get(g["gene_type"], "ncRNA")
                    if fi >= len(feats) or feats[fi]["type"] != ft:
                        bad("feature_order", f"expected {ft} got {feats[fi]['type'] if fi < len(feats) else 'EOF'}")
                        return fs
                    f = feats[fi]
                    fi += 1
                    got = [[a, b] for a, b, _, _ in f["intervals"]]
                    if got not in m["exons"]:
                        bad("rna_intervals", f"{got} not in {m['exons']} strand {strand}")
                    if any(p5 or p3 for _, _, p5, p3 in f["intervals"]):
                        bad("rna_partial_mark")
        if fi != len(feats):
            bad("extra_features", [f["type"] for f in feats[fi:]][:5])
    # locus tags: unique, increasing by the requested step
    if len(set(tags)) != len(tags):
        bad("locus_tag_duplicate", tags[:8])
    nums = []
    for t in tags:
        pre, _, num = t.rpartition("_")
        if args["locus_tag_prefix"] and pre != args["locus_tag_prefix"]:
            bad("locus_tag_prefix", t)
        try:
            nums.append(int(num))
        except ValueError:
            bad("locus_tag_number", t)
    step = args["locus_tag_jump_size"]
    if nums and any(b - a != step for a, b in zip(nums, nums[1:])):
        bad("locus_tag_step", f"{nums[:8]} step {step}")
    if nums and nums[0] != step:
        bad("locus_tag_first", f"{nums[0]} != {step}")
    return fs


# ---------------------------------------------------------------------------------------------------------------
# coordinator


def run_case(case):
    nd = node.nodes()
    req = {"op": "c17.export", "specs": case["specs"], "args": case["args"], "perturb": case["perturb"], "faults": case["faults"],
           "prior_state": case.get("prior_state", ["none"]), "prior": case.get("prior") or [], "warm_other": bool(case.get("warm_other"))}
    a = nd.call(case["hs_a"], req)
    stats = collections.Counter()
    fs = []
    if "build_error" in a:
        stats["invalid_spec"] += 1
        return fs, dict(stats), engine.plan_digest(a)
    if "t1_error" in a:
        fs.append({"inv": "export", "what": "raise:" + a["t1_error"], "flavor": case["args"]["genbank_flavor"]})
        return fs, dict(stats), engine.plan_digest(a)
    t1 = "".join(a["t1"])
    stats["exports"] += 1
    stats["hashseed_differs"] += 1
    stats["prior_export_in_same_process"] += int(bool(a.get("prior_exported")))
    stats["strain_twin_in_same_call"] += int(any(sp["sequence_name"] == "strainB" for sp in case["specs"]))
    stats["prng_perturb_" + case["perturb"][0]] += 1
    stats["warm_other"] += int(bool(a.get("warm_other")))
    stats["flavor_" + case["args"]["genbank_flavor"]] += 1
    stats["table_" + case["args"]["translation_table"]] += 1
    fs.extend(check_text(t1, case))
    seeded = case["args"]["random_seed"] is not None
    fixed_names = case["args"]["locus_tag_prefix"] is not None and case["args"]["submitter_lab_name"] is not None
    b = nd.call(case["hs_b"], dict(req, mode="plain", faults=False, prior_state=["seed", 424242]))
    if seeded:
        stats["reproducibility_checks"] += 1
        sd = case["args"]["random_seed"]
        for name, other in (("same_process_after_prng_perturb_warm", a.get("t2")), ("same_process_after_prng_perturb_fresh_objects", a.get("t3")),
                            ("other_node_other_hashseed", b.get("t1"))):
            if other is None:
                fs.append({"inv": "reproducible", "what": "second_export_raised", "where": name, "seed_class": "zero" if sd == 0 else "nonzero"})
            elif "".join(other) != t1:
                kind = _diff_kind(t1, "".join(other))
                fs.append({"inv": "reproducible", "what": "bytes_differ:" + kind, "where": name.split("_")[0] + ("_node" if "node" in name else "_process"),
                           "seed_class": "zero" if sd == 0 else "nonzero"})
    else:
        # without a seed only the random identifiers may differ
        for other in (a.get("t2"), b.get("t1")):
            if other is not None and fixed_names and _strip_random(t1) != _strip_random("".join(other)):
                fs.append({"inv": "reproducible", "what": "nonrandom_part_differs", "where": "unseeded", "seed_class": "none"})
    if case["faults"] and "faults" in a:
        W = a["W"]
        stats["write_fault_files"] += 1
        for rec in a["faults"]:
            stats["write_faults_fired"] += 1
            k = rec["k"]
            if rec["outcome"] != "oserror":
                fs.append({"inv": "write_fault", "what": "not_propagated:" + rec["outcome"], "flavor": case["args"]["genbank_flavor"]})
            elif len(rec["chunks"]) != k - 1:
                fs.append({"inv": "write_fault", "what": "chunks_after_fault", "flavor": case["args"]["genbank_flavor"]})
            elif seeded and case["args"]["random_seed"] != 0 and rec["chunks"] != a["t3"][:k - 1]:
                fs.append({"inv": "write_fault", "what": "not_a_prefix", "flavor": case["args"]["genbank_flavor"]})
        stats["write_fault_indices_max"] = max(stats["write_fault_indices_max"], W)
    stats["genes"] += sum(len(s["genes"]) for s in case["specs"])
    stats["coding_tx"] += sum(1 for s in case["specs"] for g in s["genes"] for t in g["transcripts"] if t.get("cds_starts"))
    stats["minus_multiblock_cds"] += sum(1 for s in case["specs"] for g in s["genes"] for t in g["transcripts"]
                                         if t.get("cds_starts") and t["strand"] == "MINUS" and len(t["cds_starts"]) > 1)
    stats["collections_gt1"] += int(len(case["specs"]) > 1)
    # dedupe identical findings
    uniq = []
    seen = set()
    for f in fs:
        k = json.dumps(f, sort_keys=True)
        if k not in seen:
            seen.add(k)
            uniq.append(f)
    return uniq, dict(stats), engine.plan_digest({"t1": t1, "b": b.get("t1"), "faults": a.get("faults")})


def _strip_random(text):
    import re

    return re.sub(r"gnl\|[^|]*\|[A-Z]{12}", "gnl|X|R", text)


def _diff_kind(x, y):
    if _strip_random(x) == _strip_random(y):
        return "random_ids"
    import re

    strip2 = lambda t: re.sub(r"(gnl\|)[A-Z]{8}(\|)", r"\1L\2", re.sub(r"\t[A-Z]{8}_(\d+)", r"\tP_\1", _strip_random(t)))
    if strip2(x) == strip2(y):
        return "random_names"
    return "content"


def sig_key(f):
    return (f["inv"], f["what"].split(":")[0] if f["inv"] == "tbl_model" else f["what"], f.get("where"), f.get("seed_class"))


def run_one(item):
    seed, idx, tier = item
    case = gen_case(seed, idx, tier)
    fs, stats, h = run_case(case)
    return {"idx": idx, "digest": h, "plan_digest": engine.plan_digest(case), "stats": stats, "findings": fs}


def run_batch(tier, seed, runs=None, wall=None):
    cfg = TIERS[tier]
    runs = runs or int(os.environ.get("VERIF_RUNS", "0")) or cfg["runs"]
    items = [(seed, i, tier) for i in range(runs)]
    t0 = time.time()
    res = engine.pool_map(run_one, items, wall_cap=wall or cfg["wall"], fini=node.close_nodes)
    return {"results": [r for _, r in res], "wall": time.time() - t0, "hashseed": os.environ.get("PYTHONHASHSEED", "?"), "tier": tier}


def shrink_case(case, fails, max_tests=120):
    cur = copy.deepcopy(case)
    tests = 0
    changed = True
    while changed and tests < max_tests:
        changed = False
        cands = []
        if len(cur["specs"]) > 1:
            for ci in range(len(cur["specs"])):
                cands.append(("coll", ci))
        for ci, s in enumerate(cur["specs"]):
            if len(s["genes"]) > 1:
                for gi in range(len(s["genes"])):
                    cands.append(("gene", ci, gi))
            for gi, g in enumerate(s["genes"]):
                if len(g["transcripts"]) > 1:
                    for ti in range(len(g["transcripts"])):
                        cands.append(("tx", ci, gi, ti))
                if g.get("qualifiers"):
                    cands.append(("gq", ci, gi))
                for ti, t in enumerate(g["transcripts"]):
                    if t.get("qualifiers"):
                        cands.append(("tq", ci, gi, ti))
        if cur.get("faults"):
            cands.append(("nofaults",))
        for c in cands:
            trial = copy.deepcopy(cur)
            if c[0] == "coll":
                del trial["specs"][c[1]]
            elif c[0] == "gene":
                del trial["specs"][c[1]]["genes"][c[2]]
            elif c[0] == "tx":
                del trial["specs"][c[1]]["genes"][c[2]]["transcripts"][c[3]]
            elif c[0] == "gq":
                trial["specs"][c[1]]["genes"][c[2]]["qualifiers"] = None
            elif c[0] == "tq":
                trial["specs"][c[1]]["genes"][c[2]]["transcripts"][c[3]]["qualifiers"] = None
            elif c[0] == "nofaults":
                trial["faults"] = False
            tests += 1
            if fails(trial):
                cur = trial
                changed = True
                break
            if tests >= max_tests:
                break
    return cur


def minimise_and_write(seed, idx, finding, hashseed, tier="quick"):
    key = sig_key(finding)
    case = gen_case(seed, idx, tier)

    def fails(c):
        try:
            fs, _, _ = run_case(c)
        except Exception:
            return False
        return any(sig_key(f) == key for f in fs)

    small = shrink_case(case, fails)
    doc = {"check": PROP, "seed": seed, "run": idx, "hashseed": hashseed, "case": small,
           "expect": {"inv": finding["inv"], "what": finding["what"]}, "note": json.dumps(finding)[:400]}
    node.close_nodes()
    return engine.write_replay(PROP, doc)


def replay(doc):
    try:
        fs, _, _ = run_case(doc["case"])
    finally:
        node.close_nodes()
    exp = doc.get("expect") or {}
    hit = [f for f in fs if all(f.get(k) == v for k, v in exp.items())]
    return bool(hit), fs


def aggregate(batches, tier, seed, t0):
    known = engine.load_known()
    stats = collections.Counter()
    digests, nontrivial = set(), set()
    harness_errors, groups = [], {}
    nruns = 0
    for b in batches:
        for r in b["results"]:
            nruns += 1
            if "__harness_error__" in r:
                harness_errors.append(r)
                continue
            for k, v in r["stats"].items():
                if k == "write_fault_indices_max":
                    stats[k] = max(stats[k], v)
                else:
                    stats[k] += v
            digests.add(r["plan_digest"])
            if r["stats"].get("exports") and r["stats"].get("genes", 0) >= 1:
                nontrivial.add(r["plan_digest"])
            for f in r["findings"]:
                groups.setdefault(sig_key(f), []).append((b["hashseed"], r["idx"], f))
    violations, known_hits = [], collections.Counter()
    for key, insts in sorted(groups.items(), key=lambda kv: str(kv[0])):
        hs, idx, f = insts[0]
        k = engine.match_known(known, PROP, f)
        if k:
            known_hits[k["id"]] += len(insts)
        else:
            violations.append((key, hs, idx, f, len(insts)))
    return dict(stats=stats, plan_digests=digests, nontrivial=nontrivial, harness_errors=harness_errors, violations=violations,
                known_hits=known_hits, known=known, nruns=nruns, tier=tier)


def evidence(agg, tier, seed, wall, batches):
    st = agg["stats"]
    case = gen_case(seed, 0, tier)
    sample = {"run": 0, "args": case["args"], "producer_hashseed": case["hs_a"], "second_node_hashseed": case["hs_b"], "prng_perturbation": case["perturb"],
              "write_faults_enumerated": case["faults"],
              "genes": [[g["gene_type"], g["transcripts"][0]["strand"], [[t["exon_starts"], t["exon_ends"], t.get("cds_starts"), t.get("cds_ends"), t.get("cds_frames")] for t in g["transcripts"]]]
                        for s in case["specs"] for g in s["genes"]][:4]}
    rph = agg["nruns"] / wall * 3600 if wall else 0
    return {
        "evaluations": agg["nruns"],
        "distinct_nontrivial": len(agg["nontrivial"]),
        "rule": "one evaluation = one export episode: node A exports 1-2 generated collections through a SimDisk handle, a noise session "
                "perturbs the global PRNG, A exports again (warm objects, then fresh objects), node B (other hash seed, other PRNG state) "
                "exports the same content; in ~30% of episodes the disk fails at EVERY write index 1..W in turn. The fault-free text is read "
                "by an independent 5-column reader and compared with a model computed from the spec. distinct = sha256 of the case; "
                "non-trivial = export produced >=1 gene.",
        "samples": [sample],
        "simulated_runs_per_hour": round(rph), "seeds_per_hour": round(rph),
        "simulated_time": "not applicable: no timers; one episode = 2 node requests, 3-4 exports + W faulted exports",
        "faults_fired": {
            "write_fault(k) (every k of the file, enumerated)": st["write_faults_fired"], "files_with_full_write_fault_enumeration": st["write_fault_files"],
            "max_writes_per_file_W": st["write_fault_indices_max"],
            "prng_perturb(reseed)": st["prng_perturb_seed"], "prng_perturb(draw)": st["prng_perturb_draw"], "prng_perturb(none)": st["prng_perturb_none"],
            "hashseed(second node differs)": st["hashseed_differs"],
            "earlier_export_of_a_strain_twin_in_the_same_process": st["prior_export_in_same_process"],
            "strain_twin_collection_in_the_same_call": st["strain_twin_in_same_call"],
            "same_objects_exported_with_other_flavour_table_step_before": st["warm_other"],
        },
        "reach_probes": {
            "genes": st["genes"], "coding_transcripts": st["coding_tx"], "minus_strand_multi_block_cds": st["minus_multiblock_cds"],
            "episodes_with_2_collections": st["collections_gt1"], "reproducibility_checks(seed given)": st["reproducibility_checks"],
            "flavors": {k[7:]: v for k, v in st.items() if k.startswith("flavor_")}, "tables": {k[6:]: v for k, v in st.items() if k.startswith("table_")},
            "constructor_refused_spec": st["invalid_spec"],
        },
        "known_findings_hit": dict(agg["known_hits"]),
        "harness_errors": len(agg["harness_errors"]),
        "components_real": engine.REAL,
        "components_stub": engine.STUBS,
        "repo_head": engine.repo_head(),
    }


ASSUMPTIONS = [
    "generated genes are single-strand and either all-coding or all-non-coding (a coding gene with a non-coding isoform is refused by the writer with NoncodingTranscriptError; outside the statement's domain)",
    "whole-chromosome parents with ACGT sequence only; every CDS has >=1 complete codon; every transcript has a biotype",
    "'exactly the source blocks' accepts the source blocks or the source blocks with 0-bp-gap neighbours merged (the writer documents merging for NCBI)",
    "start codon sets for tables 1/11 come from Bio.Data.CodonTable, stops TAA/TAG/TGA; DEFAULT table = ATG only",
    "calls are sequential: two exports are never interleaved inside each other (no thread-safety claim)",
]
