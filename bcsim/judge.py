"""Runs one plan (world + pristine oracles), evaluates invariants I1-I4, returns findings and reach statistics."""
import hashlib
import json

from bcsim import world
from bcsim.canon import first_diff


def root_of(plan, name):
    objs = plan["objects"]
    seen = set()
    while name in objs and "from" in objs[name] and name not in seen:
        seen.add(name)
        name = objs[name]["from"]
    return name


class PristineMemo:
    def __init__(self, limit=20000):
        self.d = {}
        self.limit = limit
        self.hits = 0
        self.misses = 0

    def get(self, plan, objname, opname, args, sl=None):
        key = world.expr_key(plan, objname, opname, args, sl)
        if key in self.d:
            self.hits += 1
            return self.d[key]
        self.misses += 1
        ans = world.run_in_fork(world.pristine_main, world.sub_plan(plan, objname, args), objname, opname, args, sl)
        if len(self.d) < self.limit:
            self.d[key] = ans
        return ans


TWIN_KINDS = ("sequence", "location", "parent", "transcript", "cds", "feature", "variant", "gene", "feature_collection", "variant_collection", "collection")


def twin_answer(memo, plan, objname, opname, args):
    key = "twin:" + world.expr_key(plan, objname, opname, args)
    if key in memo.d:
        return memo.d[key]
    dkey = "twindesc:" + world.expr_key(plan, objname, "__desc__", [])
    desc = memo.d.get(dkey)
    if desc is None:
        desc = world.run_in_fork(world.twin_describe_main, world.sub_plan(plan, objname, []), objname)
        if len(memo.d) < memo.limit:
            memo.d[dkey] = desc
    if "skip" in desc:
        ans = desc
    else:
        # the second process gets the recipes of the ARGUMENTS only; the target arrives as a description
        sub = world.sub_plan(plan, objname, args)
        ans = world.run_in_fork(world.twin_answer_main, sub, objname, opname, args, desc["desc"], desc["canon"])
    if len(memo.d) < memo.limit:
        memo.d[key] = ans
    return ans


def _sig(inv, kind, op, a, b):
    try:
        path, dk = first_diff(json.loads(a), json.loads(b))
    except Exception:
        path, dk = "/", "value"
    # strip list indices from the path so that signatures do not depend on which element differed
    parts = [p for p in path.split("/") if p and not p.isdigit()]
    return {"inv": inv, "kind": kind, "op": op, "diff": dk.split(":")[0], "detail": dk, "path": "/" + "/".join(parts[:4])}


def run_plan(plan, memo=None):
    memo = memo or PristineMemo()
    out = world.run_in_fork(world.world_main, plan)
    recs, end = out["recs"], out["end"]
    steps = plan["steps"]
    objects = plan["objects"]
    tainted = set()
    undefined = set()
    findings = []
    stats = {
        "steps": len(steps), "calls": 0, "compared": 0, "tainted_skips": 0, "undef_skips": 0, "flood": 0,
        "flood_evicting": 0, "gc": 0, "touch": 0, "warm_calls": 0, "cold_calls": 0, "raise_answers": 0,
        "silent_structural": 0, "end_compared": 0, "sessions": len({s.get("s") for s in steps if s["t"] == "call"}),
        "shared_objects": 0, "evictions_total": 0,
    }
    h = hashlib.sha256()
    per_obj_sessions = {}
    op_seq = {}
    for rec in recs:
        st = steps[rec["k"]]
        h.update(json.dumps(rec, sort_keys=True).encode())
        if st["t"] == "flood":
            stats["flood"] += 1
            if rec.get("evicted", 0) > 0:
                stats["flood_evicting"] += 1
                stats["evictions_total"] += rec["evicted"]
            continue
        if st["t"] == "gc":
            stats["gc"] += 1
            continue
        if st["t"] == "touch":
            stats["touch"] += 1
            continue
        stats["calls"] += 1
        name = st["obj"]
        names = [name] + world._refs(st.get("args", []))
        per_obj_sessions.setdefault(name, set()).add(st["s"])
        op_seq.setdefault(name, []).append(st["op"])
        if rec.get("skipped"):
            stats["resume_without_cursor"] = stats.get("resume_without_cursor", 0) + 1
            continue
        if "slice" in rec:
            stats["lazy_steps"] = stats.get("lazy_steps", 0) + 1
            stats["lazy_resumes"] = stats.get("lazy_resumes", 0) + int("resume" in st)
        if rec.get("undef") and "store" in st:
            undefined.add(st["store"])
        if any(n in undefined for n in names):
            stats["undef_skips"] += 1
            if "store" in st:
                undefined.add(st["store"])
            continue
        fam = {root_of(plan, n) for n in names}
        if fam & tainted:
            stats["tainted_skips"] += 1
            continue
        if rec.get("warm"):
            stats["warm_calls"] += 1
        else:
            stats["cold_calls"] += 1
        if rec["ans"].startswith('{"#":"raise"'):
            stats["raise_answers"] += 1
        kind = objects[name]["kind"]
        pristine = memo.get(plan, name, st["op"], st.get("args", []), rec.get("slice"))
        stats["compared"] += 1
        if rec["ans"] != pristine:
            f = _sig("I1", kind, st["op"], rec["ans"], pristine)
            f.update(step=rec["k"], obj=name, world=rec["ans"][:400], pristine=pristine[:400])
            findings.append(f)
            tainted |= fam
            continue
        # I5 (equal by value -> equal answers): a DERIVED low-level object (the result of an operation) must answer like a
        # twin rebuilt from nothing but its values through the public constructors; its recipe-built pristine twin shares
        # its provenance, so whatever a derivation plants on its result is invisible to I1.  Sampled by expression digest.
        if kind in TWIN_KINDS and "from" in objects[name] and "slice" not in rec and st["op"] != "__obs__" \
                and int(world.expr_key(plan, name, st["op"], st.get("args", []))[:2], 16) % 3 == 0:
            tw = twin_answer(memo, plan, name, st["op"], st.get("args", []))
            if "skip" in tw:
                stats["twin_skips"] = stats.get("twin_skips", 0) + 1
                stats["twin_skip:" + kind + ":" + objects[name]["op"] + ":" + tw["skip"]] = stats.get("twin_skip:" + kind + ":" + objects[name]["op"] + ":" + tw["skip"], 0) + 1
            else:
                stats["twin_compared"] = stats.get("twin_compared", 0) + 1
                if tw["ans"] != pristine:
                    f = _sig("I5", kind, st["op"], pristine, tw["ans"])
                    f.update(step=rec["k"], obj=name, world=pristine[:400], pristine=tw["ans"][:400])
                    findings.append(f)
                    tainted |= fam
                    continue
        if rec.get("argmut"):
            am = rec["argmut"]
            findings.append({"inv": "I2", "kind": kind, "op": st["op"], "diff": "argument_changed", "detail": f"argument {am['i']}", "path": f"/arg{am['i']}",
                             "step": rec["k"], "obj": name, "world": am["after"], "pristine": am["before"]})
            tainted |= fam
            continue
        for n in rec.get("mut", []):
            pobs = memo.get(plan, n, "__obs__", [])
            if rec["obs"][n] != pobs:
                f = _sig("I2", objects[n]["kind"], st["op"], rec["obs"][n], pobs)
                f.update(step=rec["k"], obj=n, culprit_kind=kind, world=rec["obs"][n][:400], pristine=pobs[:400])
                findings.append(f)
                tainted.add(root_of(plan, n))
            else:
                stats["silent_structural"] += 1
    for n, obs in end.items():
        if root_of(plan, n) in tainted or n in undefined:
            continue
        pobs = memo.get(plan, n, "__obs__", [])
        stats["end_compared"] += 1
        if obs != pobs:
            f = _sig("I3", objects[n]["kind"], "__end__", obs, pobs)
            f.update(step=len(steps), obj=n, world=obs[:400], pristine=pobs[:400])
            findings.append(f)
            tainted.add(root_of(plan, n))
    stats["shared_objects"] = sum(1 for v in per_obj_sessions.values() if len(v) >= 2)
    pairs = {}
    for n, seq in op_seq.items():
        kind = objects[n]["kind"]
        ps = pairs.setdefault(kind, set())
        for i in range(len(seq)):
            for j in range(i + 1, min(len(seq), i + 12)):
                ps.add((seq[i], seq[j]))
    return {
        "findings": findings,
        "stats": stats,
        "digest": h.hexdigest(),
        "pairs": {k: sorted(v) for k, v in pairs.items()},
    }


def sig_key(f):
    return (f["inv"], f["kind"], f["op"], f["diff"], f["path"])
