"""SimDisk: in-memory text handles passed as the ``handle`` argument of the real writers/readers.

SimWriter records every write() as a chunk and can fail the k-th write (or flush/close) with OSError(ENOSPC|EIO).
SimReader can fail the k-th read()/readline() with OSError(EIO) and serves a text with seed-chosen short reads (read(n) returns fewer characters; readline/iteration unaffected
in content but the underlying read sizes vary).  For readers that insist on a *path* (gffutils), ``materialise``
writes the text byte-for-byte under /dev/shm and the caller removes it right after the parse."""
import errno
import io
import os
import tempfile


class SimWriter(io.TextIOBase):
    def __init__(self, fail_at=None, err=errno.ENOSPC, name="<simdisk>"):
        super().__init__()
        self.chunks = []
        self.fail_at = fail_at  # 1-based index of the write() that raises
        self.err = err
        self.nwrites = 0
        self.fired = False
        self.name = name
        self.mode = "w"

    def writable(self):
        return True

    def write(self, s):
        if not isinstance(s, str):
            raise TypeError("SimWriter is a text handle")
        self.nwrites += 1
        if self.fail_at is not None and self.nwrites == self.fail_at:
            self.fired = True
            raise OSError(self.err, os.strerror(self.err))
        self.chunks.append(s)
        return len(s)

    def flush(self):
        return None

    def getvalue(self):
        return "".join(self.chunks)


class SimReader(io.TextIOBase):
    """Text reader with legal short reads."""

    def __init__(self, text, rng=None, max_chunk=None, name="<simdisk>", fail_at=None, err=errno.EIO):
        super().__init__()
        self.fail_at = fail_at  # 1-based index of the read()/readline() that raises
        self.err = err
        self.fired = False
        self.text = text
        self.pos = 0
        self.rng = rng
        self.max_chunk = max_chunk
        self.name = name
        self.mode = "r"
        self.reads = 0
        self.short_reads = 0

    def readable(self):
        return True

    def _limit(self, n):
        if self.rng is None or self.max_chunk is None:
            return n
        cap = self.rng.randint(1, self.max_chunk)
        if n is None or n < 0 or cap < n:
            self.short_reads += 1
            return cap
        return n

    def _count(self):
        self.reads += 1
        if self.fail_at is not None and self.reads == self.fail_at:
            self.fired = True
            raise OSError(self.err, os.strerror(self.err))

    def read(self, n=-1):
        self._count()
        if n is None or n < 0:
            # read-all must return everything (a short read is only legal for sized reads)
            out = self.text[self.pos:]
            self.pos = len(self.text)
            return out
        n = self._limit(n)
        out = self.text[self.pos:self.pos + n]
        self.pos += len(out)
        return out

    def readline(self, size=-1):
        self._count()
        if self.pos >= len(self.text):
            return ""
        j = self.text.find("\n", self.pos)
        end = len(self.text) if j < 0 else j + 1
        if size is not None and size >= 0:
            end = min(end, self.pos + size)
        out = self.text[self.pos:end]
        self.pos = end
        return out

    def __iter__(self):
        return self

    def __next__(self):
        line = self.readline()
        if not line:
            raise StopIteration
        return line

    def seek(self, pos, whence=0):
        if whence == 0:
            self.pos = pos
        elif whence == 1:
            self.pos += pos
        else:
            self.pos = len(self.text) + pos
        return self.pos

    def tell(self):
        return self.pos


def materialise(text, suffix=".txt", path=None):
    """Write text byte-for-byte to a private file under /dev/shm; caller must os.unlink it immediately after use.
    ``path``: rewrite that file instead of creating a new one (same name, new content: what a reader that remembers
    anything by file name must survive)."""
    if path is not None:
        with open(path, "w", newline="") as f:
            f.write(text)
        return path
    d = "/dev/shm" if os.path.isdir("/dev/shm") else None
    fd, path = tempfile.mkstemp(prefix=f"bcsim-{os.getpid()}-", suffix=suffix, dir=d)
    with os.fdopen(fd, "w", newline="") as f:
        f.write(text)
    return path
